(* C12: the interpreter's bookkeeping lists (0 context_values, 1 inputs, 2 stacks,
   3 function_stack) as seen in the emitted Python: which statements append to / pop from
   them and how control can leave a block.  `effects` mirrors Transpile.tr (same block
   structure as PyShape.shape) keeping only pushes, pops, jumps and blocks; `flow` is the
   balance analysis; `exec` a nondeterministic semantics of the effect tree (any branch,
   any number of loop iterations) against which `flow` is proved sound.
   The element and modifier templates touch none of the four lists (an obligation on the
   regenerated table, Gen/BookFacts.v), and calls into lambdas / functions are neutral
   because every def body is itself balanced (C12_defs).  No proofs here. *)
From Coq Require Import List NArith ZArith Bool.
From Vy Require Import Model.Base Model.Lexer Model.Parser Model.PyTree.
Import ListNotations.

Inductive enode :=
| EPush (b : nat) | EPop (b : nat)
| EBreak | EContinue | EReturn
| EBlock (k : bkind) (body : list enode).

(* depth change of the four lists *)
Definition delta := (Z * Z * Z * Z)%type.
Definition d0 : delta := (0, 0, 0, 0)%Z.
Definition bump (b : nat) (x : Z) (d : delta) : delta :=
  let '(a, b1, c, e) := d in
  match b with
  | 0%nat => (a + x, b1, c, e) | 1%nat => (a, b1 + x, c, e)
  | 2%nat => (a, b1, c + x, e) | _ => (a, b1, c, e + x)
  end%Z.
Definition delta_eqb (x y : delta) : bool :=
  let '(a, b, c, e) := x in let '(a', b', c', e') := y in
  (a =? a')%Z && (b =? b')%Z && (c =? c')%Z && (e =? e')%Z.

Inductive okind := ONormal | OBreak | OContinue | OReturn.
Definition okind_eqb (a b : okind) : bool :=
  match a, b with
  | ONormal, ONormal | OBreak, OBreak | OContinue, OContinue | OReturn, OReturn => true
  | _, _ => false
  end.
Definition outcome := (okind * delta)%type.

(* ---- effects of the emitted code ------------------------------------------------------------- *)
Definition eff_break (p : option pkind) : list enode :=
  match p with
  | Some PFor | Some PWhile => [EPop 0; EBreak]
  | Some PLambda => [EPop 0; EPop 1; EPop 2; EPop 3; EReturn]
  | _ => []
  end.
Definition eff_recurse (p : option pkind) : list enode :=
  match p with
  | Some PFor | Some PWhile => [EPop 0; EContinue]
  | _ => []
  end.

Definition lambda_eff (body : list enode) : list enode :=
  [EBlock BDef ([EPush 3; EPush 0; EPush 1; EPush 2] ++ body ++ [EPop 0; EPop 1; EPop 2; EPop 3; EReturn])].

Section WithEff.
  Variable ef : struct -> list enode.
  Definition east (l : list struct) : list enode := flat_map ef l.
  Fixpoint eitems (l : list (list struct)) : list enode :=
    match l with
    | [] => []
    | x :: r => EBlock BDef (east x ++ [EBlock BIf [EReturn]; EReturn]) :: eitems r
    end.
  Fixpoint eifs (bs : list (list struct)) (first : bool) : list enode :=
    match bs with
    | [] => []
    | [body] => if first then [EBlock BIf (east body)] else [EBlock BElse (east body)]
    | x :: ((y :: rest) as tl) =>
        if first then EBlock BIf (east x) :: eifs tl false
        else [EBlock BElse (east x ++ [EBlock BIf (east y)] ++ eifs rest false)]
    end.
End WithEff.

Fixpoint effects (s : struct) : list enode :=
  let wrapped := fun (x : struct) =>
    match x with
    | SLambda _ body => lambda_eff (east effects body)
    | _ => lambda_eff (effects x)
    end in
  match s with
  | SGeneric _ | SFnCall _ => []
  | SBreak p => eff_break p
  | SRecurse p => eff_recurse p
  | SIf bs => eifs effects bs true
  | SFor _ body => [EBlock BLoop ([EPush 0] ++ east effects body ++ [EPop 0])]
  | SWhile c b => east effects c ++ [EBlock BLoop ([EPush 0] ++ east effects b ++ [EPop 0] ++ east effects c)]
  | SFnDef _ _ body =>
      [EBlock BDef ([EPush 0; EPush 2; EPush 1] ++ east effects body ++ [EPop 0; EPop 1; EPop 2; EReturn])]
  | SLambda _ body => lambda_eff (east effects body)
  | SLamOp _ body => lambda_eff (east effects body)
  | SList its => eitems effects its
  | SMod1 _ a => wrapped a
  | SMod2 _ a b => wrapped a ++ wrapped b
  | SMod3 _ a b c => wrapped a ++ wrapped b ++ wrapped c
  end.

Definition effects_program (l : list struct) : list enode := east effects l.

(* canonical form for comparison with the implementation: blocks without any effect
   or jump inside are dropped (they carry no information about the four lists) *)
Fixpoint canon (n : enode) : list enode :=
  match n with
  | EBlock k body =>
      match flat_map canon body with
      | [] => []
      | body' => [EBlock k body']
      end
  | _ => [n]
  end.
Definition canon_list (l : list enode) : list enode := flat_map canon l.

Fixpoint enode_eqb (a b : enode) : bool :=
  let eql := fix eql (x y : list enode) : bool :=
    match x, y with
    | [], [] => true
    | p :: x', q :: y' => enode_eqb p q && eql x' y'
    | _, _ => false
    end in
  match a, b with
  | EPush i, EPush j | EPop i, EPop j => Nat.eqb i j
  | EBreak, EBreak | EContinue, EContinue | EReturn, EReturn => true
  | EBlock k1 b1, EBlock k2 b2 =>
      (match k1, k2 with BDef, BDef | BLoop, BLoop | BIf, BIf | BElse, BElse => true | _, _ => false end)
      && eql b1 b2
  | _, _ => false
  end.
Fixpoint enode_list_eqb (x y : list enode) : bool :=
  match x, y with
  | [], [] => true
  | p :: x', q :: y' => enode_eqb p q && enode_list_eqb x' y'
  | _, _ => false
  end.

(* ---- the balance analysis ----------------------------------------------------------------------
   flow l d = Some (n, ab): entered at depth d, the statement list l can complete normally
   only at depth n (None: it never completes normally) and can be left abruptly only as
   listed in ab -- provided every loop inside is balanced per iteration, every def body
   returns at the depth it was entered with, and the ways through an if agree.
   None: some loop, def or if inside is not balanced. *)
Definition summary := (option delta * list outcome)%type.

Definition all_at (k : okind) (d : delta) (outs : list outcome) : bool :=
  forallb (fun o => negb (okind_eqb (fst o) k) || delta_eqb (snd o) d) outs.
Definition normal_at (d : delta) (n : option delta) : bool :=
  match n with None => true | Some d' => delta_eqb d' d end.
Definition only_kind (k : okind) (outs : list outcome) : bool :=
  forallb (fun o => okind_eqb (fst o) k) outs.
Definition returns_of (outs : list outcome) : list outcome :=
  filter (fun o => okind_eqb (fst o) OReturn) outs.

Fixpoint flow1 (n : enode) (d : delta) : option summary :=
  let flowl := fix flowl (l : list enode) (d : delta) : option summary :=
    match l with
    | [] => Some (Some d, [])
    | x :: r =>
        match flow1 x d with
        | None => None
        | Some (None, ab) => Some (None, ab)
        | Some (Some d1, ab) =>
            match flowl r d1 with
            | None => None
            | Some (n2, ab2) => Some (n2, ab ++ ab2)
            end
        end
    end in
  match n with
  | EPush b => Some (Some (bump b 1 d), [])
  | EPop b => Some (Some (bump b (-1) d), [])
  | EBreak => Some (None, [(OBreak, d)])
  | EContinue => Some (None, [(OContinue, d)])
  | EReturn => Some (None, [(OReturn, d)])
  | EBlock BDef body =>
      (* defining a function changes nothing; its body must be balanced on its own *)
      match flowl body d0 with
      | Some (nb, ab) =>
          if normal_at d0 nb && only_kind OReturn ab && all_at OReturn d0 ab then Some (Some d, []) else None
      | None => None
      end
  | EBlock BLoop body =>
      match flowl body d with
      | Some (nb, ab) =>
          if normal_at d nb && all_at OContinue d ab && all_at OBreak d ab
          then Some (Some d, returns_of ab) else None
      | None => None
      end
  | EBlock _ body =>
      (* an if / else suite may or may not run: both ways must agree *)
      match flowl body d with
      | Some (nb, ab) => if normal_at d nb then Some (Some d, ab) else None
      | None => None
      end
  end.

Fixpoint flow (l : list enode) (d : delta) : option summary :=
  match l with
  | [] => Some (Some d, [])
  | x :: r =>
      match flow1 x d with
      | None => None
      | Some (None, ab) => Some (None, ab)
      | Some (Some d1, ab) =>
          match flow r d1 with
          | None => None
          | Some (n2, ab2) => Some (n2, ab ++ ab2)
          end
      end
  end.

(* the whole program ends where it started and nothing leaves it abruptly *)
Definition balanced (l : list enode) : bool :=
  match flow l d0 with
  | Some (Some d, []) => delta_eqb d d0
  | _ => false
  end.

Definition balanced_source (src : str) : option bool :=
  match parse_source src with Ok l => Some (balanced (effects_program l)) | _ => None end.
Definition effects_source (src : str) : option (list enode) :=
  match parse_source src with Ok l => Some (canon_list (effects_program l)) | _ => None end.

(* ---- where early exits may stand (side condition of C12) ----------------------------------------
   in_loop: directly (through ifs) in the body of the loop named by the parent annotation;
   lam: directly (through ifs) in a lambda body *)
Fixpoint exit_ok (in_loop lam : bool) (s : struct) : bool :=
  let all := fun (a b : bool) (l : list struct) => forallb (exit_ok a b) l in
  match s with
  | SGeneric _ | SFnCall _ => true
  | SBreak p =>
      match p with Some PFor | Some PWhile => in_loop | Some PLambda => lam | _ => true end
  | SRecurse p =>
      match p with Some PFor | Some PWhile => in_loop | _ => true end
  | SIf bs => forallb (all in_loop lam) bs
  | SFor _ b => all true false b
  | SWhile c b => all false false c && all true false b
  | SFnDef _ _ b => all false false b
  | SLambda _ b => all false true b
  | SLamOp _ b => all false true b
  | SList its => forallb (all false false) its
  | SMod1 _ a => exit_ok false true a
  | SMod2 _ a b => exit_ok false true a && exit_ok false true b
  | SMod3 _ a b c => exit_ok false true a && exit_ok false true b && exit_ok false true c
  end.

(* ---- a nondeterministic semantics of effect trees ------------------------------------------------
   Any branch may be taken, a loop runs any number of iterations, defining a function is a
   no-op (calls are neutral: every def body is balanced, theorem C12_defs_balanced). *)
Inductive exec1 : enode -> delta -> outcome -> Prop :=
| XPush b d : exec1 (EPush b) d (ONormal, bump b 1 d)
| XPop b d : exec1 (EPop b) d (ONormal, bump b (-1) d)
| XBreak d : exec1 EBreak d (OBreak, d)
| XContinue d : exec1 EContinue d (OContinue, d)
| XReturn d : exec1 EReturn d (OReturn, d)
| XDef body d : exec1 (EBlock BDef body) d (ONormal, d)
| XIfSkip body d : exec1 (EBlock BIf body) d (ONormal, d)
| XIfRun body d o : execl body d o -> exec1 (EBlock BIf body) d o
| XElseSkip body d : exec1 (EBlock BElse body) d (ONormal, d)
| XElseRun body d o : execl body d o -> exec1 (EBlock BElse body) d o
| XLoopDone body d : exec1 (EBlock BLoop body) d (ONormal, d)
| XLoopNextN body d d' o :      (* one iteration ends normally, then the loop goes on *)
    execl body d (ONormal, d') -> exec1 (EBlock BLoop body) d' o -> exec1 (EBlock BLoop body) d o
| XLoopNextC body d d' o :      (* one iteration ends by continue, then the loop goes on *)
    execl body d (OContinue, d') -> exec1 (EBlock BLoop body) d' o -> exec1 (EBlock BLoop body) d o
| XLoopBreak body d d' : execl body d (OBreak, d') -> exec1 (EBlock BLoop body) d (ONormal, d')
| XLoopReturn body d d' : execl body d (OReturn, d') -> exec1 (EBlock BLoop body) d (OReturn, d')
with execl : list enode -> delta -> outcome -> Prop :=
| XNil d : execl [] d (ONormal, d)
| XConsNormal x r d d1 o : exec1 x d (ONormal, d1) -> execl r d1 o -> execl (x :: r) d o
| XConsAbrupt x r d k d1 : exec1 x d (k, d1) -> k <> ONormal -> execl (x :: r) d (k, d1).
