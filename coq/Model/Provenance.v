(* C18 -- where program-supplied text may sit in the Python text that Model/Transpile.v
   (the text model of vyxal/transpile.py) produces.  Definitions only, no proofs.

   The generated text is a sequence of CHUNKS  <spaces> <core> "\n".  A core is safe
   when it is a line of the fixed VOCABULARY (every literal line of transpile.py and
   every line of every element / modifier template of Gen/Elements.v) or one of the
   payload-carrying shapes listed in `payload_shapes`: a fixed prefix, a payload, a
   fixed suffix, with a decidable condition on the payload that makes it a constant
   (string / number literal body) or the tail of an identifier [A-Za-z0-9_]*.
   A core normally is one line; the only core that can span lines is the double-quoted
   string shape, whose body may contain a newline directly after a backslash (a Python
   line continuation inside the literal; helpers.indent_str then indents the
   continuation line, the inserted spaces stay inside the literal).

   `strict = true` : the body of a double-quoted literal must be the body of ONE
   well-terminated Python literal (no raw quote, no raw newline / carriage return outside
   an escape pair).  `strict = false` tolerates a raw carriage return: it cannot close the
   literal, Python rejects the whole module (that is property C02's subject). *)
From Coq Require Import List NArith ZArith Bool String Ascii.
From Vy Require Import Model.Base Model.Lexer Model.Parser Model.Transpile
  Gen.ParserConsts Gen.Codepage Gen.Elements.
Import ListNotations.
Open Scope N_scope.

(* ---- identifiers ------------------------------------------------------------------ *)
Definition ident_char (c : N) : bool :=
  ((65 <=? c) && (c <=? 90)) || ((97 <=? c) && (c <=? 122)) || ((48 <=? c) && (c <=? 57)) || N.eqb c 95.
Definition ident_ok (s : str) : bool := forallb ident_char s.

(* ---- body of a quoted Python literal ------------------------------------------------
   two states: normal / directly after a backslash.  q is the quote character. *)
Fixpoint lit_run (strict : bool) (q : N) (esc : bool) (s : str) : bool :=
  match s with
  | [] => negb esc
  | c :: r =>
      if esc then lit_run strict q false r               (* escape pair: any character *)
      else if N.eqb c 92 then lit_run strict q true r
      else if N.eqb c q then false                       (* a raw quote would close the literal *)
      else if N.eqb c 10 then false                      (* raw newline *)
      else if N.eqb c 13 then negb strict && lit_run strict q false r
      else lit_run strict q false r
  end.
Definition dq_body_ok (s : str) : bool := lit_run true 34 false s.
Definition dq_body_closed (s : str) : bool := lit_run false 34 false s.

(* a complete literal as Python's repr prints it: 'body' or "body" *)
Definition py_literal_ok (l : str) : bool :=
  match l with
  | q :: r =>
      (N.eqb q 34 || N.eqb q 39)
      && match rev r with
         | q' :: body_rev => N.eqb q' q && lit_run true q false (rev body_rev)
         | [] => false
         end
  | [] => false
  end.

(* ---- payload conditions ----------------------------------------------------------------- *)
Definition num_src_char (c : N) : bool := is_digit c || N.eqb c 46 || N.eqb c 176.   (* 0-9 . ° *)
Definition num_payload_char (c : N) : bool := is_digit c || mem c [46; 43; 42; 73; 32].  (* 0-9 . + * I space *)
Definition num_payload_ok (s : str) : bool := forallb num_payload_char s.
Definition is_dec (s : str) : bool := match s with [] => false | _ => forallb is_digit s end.
Definition is_dec_Z (s : str) : bool := is_dec s || match s with 45 :: r => is_dec r | _ => false end.
Definition sq_plain_ok (s : str) : bool := forallb plain_repr_char s.   (* printable ASCII without ' and \ *)
Definition char_repr_ok (s : str) : bool := mem_str s (map snd char_reprs).
Definition arity_ok (s : str) : bool := is_dec_Z s || str_eqb s (L "ctx.default_arity").

Fixpoint span_digits (s : str) : str * str :=
  match s with
  | c :: r => if is_digit c then let '(d, t) := span_digits r in (c :: d, t) else ([], s)
  | [] => ([], [])
  end.

Fixpoint drop_prefix (p s : str) : option str :=
  match p, s with
  | [], _ => Some s
  | a :: p', b :: s' => if N.eqb a b then drop_prefix p' s' else None
  | _ :: _, [] => None
  end.
Definition drop_suffix (suf s : str) : option str :=
  match drop_prefix (rev suf) (rev s) with Some r => Some (rev r) | None => None end.

(* <dec>.arity = <arity>   (after the prefix _lambda_) *)
Definition lam_arity_mid (s : str) : bool :=
  let '(d, r) := span_digits s in
  is_dec d && match drop_prefix (L ".arity = ") r with Some a => arity_ok a | None => false end.

(* x = pre ++ mid ++ suf with P mid *)
Definition wrapb (pre suf : str) (P : str -> bool) (x : str) : bool :=
  match drop_prefix pre x with
  | Some r => match drop_suffix suf r with Some mid => P mid | None => false end
  | None => false
  end.

Definition shape := (str * str * (str -> bool))%type.

Definition sh_string (strict : bool) : shape := (L "stack.append(""", L """)", lit_run strict 34 false).
Definition sh_rational : shape := (L "stack.append(sympy.Rational(""", L """))", num_payload_ok).
Definition sh_nsimplify : shape := (L "stack.append(sympy.nsimplify(""", L """))", num_payload_ok).
Definition sh_int : shape := (L "stack.append(", L ")", is_dec_Z).
Definition sh_sq : shape := (L "stack.append('", L "')", sq_plain_ok).
Definition sh_char : shape := (L "stack.append(", L ")", char_repr_ok).
Definition sh_varget : shape := (L "stack.append(VAR_", L ");", ident_ok).
Definition sh_varget_ctx : shape := (L "stack.append(ctx.VAR_", L ")", ident_ok).
Definition sh_varset : shape := (L "VAR_", L " = pop(stack, 1, ctx=ctx)", ident_ok).
Definition sh_varset_ctx : shape := (L "ctx.VAR_", L " = pop(stack, 1, ctx)", ident_ok).
Definition sh_for : shape := (L "for VAR_", L " in iterable(pop(stack, 1, ctx=ctx), range, ctx):", ident_ok).
Definition sh_for_ctx : shape := (L "ctx.context_values.append(VAR_", L ")", ident_ok).
Definition sh_fncall : shape := (L "stack += VAR_", L "(stack, self=None, ctx=ctx)", ident_ok).
Definition sh_fndef : shape := (L "def VAR_", L "(arg_stack, self, arity=-1, ctx=None):", ident_ok).
Definition sh_this : shape := (L "this = VAR_", [], ident_ok).
Definition sh_param : shape := (L "VAR_", L " =pop(arg_stack, 1, ctx=ctx)", ident_ok).
Definition sh_param_num : shape := (L "parameters += wrapify(arg_stack, ", L ", ctx)", is_dec).
Definition sh_lam_def : shape := (L "def _lambda_", L "(arg_stack, self, arity=-1, ctx=None):", is_dec).
Definition sh_lam_else : shape := (L "else: stack = wrapify(arg_stack, ", L ", ctx)", arity_ok).
Definition sh_lam_arity : shape := (L "_lambda_", [], lam_arity_mid).
Definition sh_lam_push : shape := (L "stack.append(_lambda_", L ")", is_dec).

(* every shape except the string shape *)
Definition line_shapes : list shape :=
  [sh_rational; sh_nsimplify; sh_int; sh_sq; sh_char; sh_varget; sh_varget_ctx; sh_varset;
   sh_varset_ctx; sh_for; sh_for_ctx; sh_fncall; sh_fndef; sh_this; sh_param; sh_param_num;
   sh_lam_def; sh_lam_else; sh_lam_arity; sh_lam_push].
Definition payload_shapes (strict : bool) : list shape := sh_string strict :: line_shapes.

Definition shape_matches (x : str) (s : shape) : bool := let '(pre, suf, P) := s in wrapb pre suf P x.

(* ---- the fixed vocabulary ----------------------------------------------------------------- *)
Fixpoint strip_sp (s : str) : str :=
  match s with c :: r => if N.eqb c 32 then strip_sp r else s | [] => [] end.
Fixpoint lead_sp (s : str) : str :=
  match s with c :: r => if N.eqb c 32 then c :: lead_sp r else [] | [] => [] end.

Definition lines (t : str) : list str := split_on nl t [].

(* every line transpile.py emits that carries no program text *)
Definition fixed_lines : list str :=
  [ [];
    L "pass";
    L "stack.append(ctx.ghost_variable)";
    L "ctx.ghost_variable = pop(stack, 1, ctx=ctx)";
    L "parameters += wrapify(arg_stack, pop(arg_stack, 1, ctx=ctx), ctx=ctx)";
    L "ctx.context_values.pop()";
    L "break";
    L "continue";
    L "ret = [pop(stack, 1, ctx=ctx)]";
    L "ctx.inputs.pop()";
    L "ctx.stacks.pop()";
    L "ctx.function_stack.pop()";
    L "return ret";
    L "return stack";
    L "stack.append(this(stack, this, ctx=ctx))";
    L "stack += this(stack, this, ctx=ctx)";
    L "stack += ctx.function_stack[-2](stack, ctx.function_stack[-2], ctx=ctx)";
    L "vy_print(stack, ctx=ctx)";
    L "if arity != -1: stack = wrapify(arg_stack, arity, ctx=ctx)";
    L "elif 'stored_arity' in dir(self): stack = wrapify(arg_stack, self.stored_arity, ctx)";
    L "this = self";
    L "ctx.function_stack.append(this)";
    L "ctx.context_values.append(list(deep_copy(stack)) if len(stack) != 1 else deep_copy(stack[0]))";
    L "ctx.inputs.append([list(deep_copy(stack))[::-1], 0]);";
    L "ctx.stacks.append(stack);";
    L "res = [pop(stack, 1, ctx)]";
    L "return res";
    L "def list_item(s, ctx):";
    L "stack = list(deep_copy(s))";
    L "if len(stack) == 0: return";
    L "return pop(stack, 1, ctx=ctx)";
    L "f = list_item(stack, ctx)";
    L "if f is not None: temp_list.append(f)";
    L "temp_list = []";
    L "stack.append(list(deep_copy(temp_list)))";
    L "condition = pop(stack, 1, ctx=ctx)";
    L "if boolify(condition, ctx):";
    L "else:";
    L "for ctx.ghost_variable in iterable(pop(stack, 1, ctx=ctx), range, ctx):";
    L "ctx.context_values.append(ctx.ghost_variable)";
    L "while boolify(condition, ctx):";
    L "ctx.context_values.append(condition)";
    L "parameters = []";
    L "stack = parameters[::]";
    L "ctx.context_values.append(parameters[::])";
    L "ctx.stacks.append(stack)";
    L "ctx.inputs.append([parameters[::-1], 0])";
    L "function_A = pop(stack, 1, ctx)";
    L "function_B = pop(stack, 1, ctx)";
    L "function_C = pop(stack, 1, ctx)" ].

Definition template_lines : list str :=
  flat_map (fun e => lines (e_text e)) elements ++ flat_map (fun m => lines (m_text m)) modifiers.

Definition fixed_vocab : list str := fixed_lines.
Definition template_vocab : list str := map strip_sp template_lines.
Definition in_vocab (x : str) : bool := mem_str x fixed_vocab || mem_str x template_vocab.

(* ---- safe cores, lines and texts --------------------------------------------------------------- *)
Definition safe_core (strict : bool) (x : str) : bool :=
  in_vocab x || existsb (shape_matches x) (payload_shapes strict).

(* one physical line: indentation removed *)
Definition safe_line (strict : bool) (l : str) : bool := safe_core strict (strip_sp l).

Definition all_spaces (s : str) : bool := forallb (N.eqb 32) s.

Inductive safe_text (strict : bool) : str -> Prop :=
| safe_nil : safe_text strict []
| safe_chunk (sp core rest : str) :
    all_spaces sp = true -> safe_core strict core = true -> safe_text strict rest ->
    safe_text strict (sp ++ core ++ nl :: rest).

(* ---- which token values a tree may carry ----------------------------------------------------------
   variable names and number spellings are NOT sanitised by the transpiler: it relies on
   what the lexer delivers.  Everything else (string contents, function / loop / parameter
   names, arities) may be arbitrary. *)
Definition tok_ok (strict : bool) (undict : str -> str) (t : token) : bool :=
  match tk t with
  | KVarGet | KVarSet => ident_ok (tv t)
  | KNumber => forallb num_src_char (tv t)
  | KString => negb strict || negb (mem 13 (undict (tv t)))
  | _ => true
  end.

Inductive tree_ok (Q : token -> Prop) : struct -> Prop :=
| ok_generic t : Q t -> tree_ok Q (SGeneric t)
| ok_break p : tree_ok Q (SBreak p)
| ok_recurse p : tree_ok Q (SRecurse p)
| ok_if bs : Forall (Forall (tree_ok Q)) bs -> tree_ok Q (SIf bs)
| ok_for n b : Forall (tree_ok Q) b -> tree_ok Q (SFor n b)
| ok_while c b : Forall (tree_ok Q) c -> Forall (tree_ok Q) b -> tree_ok Q (SWhile c b)
| ok_fncall n : tree_ok Q (SFnCall n)
| ok_fndef n ps b : Forall (tree_ok Q) b -> tree_ok Q (SFnDef n ps b)
| ok_lambda a b : Forall (tree_ok Q) b -> tree_ok Q (SLambda a b)
| ok_lamop o b : Forall (tree_ok Q) b -> tree_ok Q (SLamOp o b)
| ok_list items : Forall (Forall (tree_ok Q)) items -> tree_ok Q (SList items)
| ok_mod1 m a : tree_ok Q a -> tree_ok Q (SMod1 m a)
| ok_mod2 m a b : tree_ok Q a -> tree_ok Q b -> tree_ok Q (SMod2 m a b)
| ok_mod3 m a b c : tree_ok Q a -> tree_ok Q b -> tree_ok Q c -> tree_ok Q (SMod3 m a b c).

(* what the lexer guarantees about the values of the tokens it emits, given that every
   source character satisfies p *)
Definition tok_lex_ok (p : N -> bool) (t : token) : bool :=
  match tk t with
  | KVarGet | KVarSet => forallb is_name_char (tv t)
  | KNumber => forallb num_src_char (tv t)
  | KString => forallb p (tv t)
  | _ => true
  end.
