(* C01: run-time values, the interpreter state and the semantics of the CLOSED CORE of
   elements and modifier bodies, shared by the two evaluators Model/Machine.v (what the
   emitted Python does) and Model/RefSem.v (the documented structure semantics).
   Anchors: vyxal/helpers.py (pop, get_input, wrapify, iterable, digits, safe_apply),
   vyxal/elements.py (the element functions and templates named at each definition),
   vyxal/context.py.  No proofs in this file.

   Domain.  Values are integers, strings (lists of code points), (finite) lists and function
   values.  The implementation
   evaluates maps / filters / vectorised calls lazily; the model evaluates eagerly and
   therefore answers EStuck ("outside the modelled domain") whenever the difference could
   be observed: a lazily applied function must be side-effect free (`pure_list`) and its
   arguments function-free; a function value reaching arithmetic, a test or a printer is
   EStuck too.  EStuck is never compared with the implementation (props/C01.py skips and
   counts such cases); every other outcome is. *)
From Coq Require Import List NArith ZArith Bool.
From Vy Require Import Model.Base Model.Lexer Model.Parser Model.Transpile Gen.ParserConsts.
Import ListNotations.
Open Scope Z_scope.

(* ---- values ------------------------------------------------------------------------------- *)
(* a function value: a lambda (c_named = false) or a named function with its parameters
   (a count of stack items, a name, or `*`: the count itself is popped); c_arity is the attribute `.arity` / the declared arity of the lambda template,
   c_stored the attribute `.stored_arity` set by the modifiers ƒ ɖ; c_env the frames of the defs the
   function was defined in (its closure cells), innermost first; c_name the VAR_<name> of a named function *)
Inductive param := PNum (n : nat) | PName (x : str) | PStar.
Record closure := mkClo {
  c_named : bool; c_name : str; c_params : list param; c_arity : Z; c_stored : option Z; c_body : list struct;
  c_env : list nat }.

Inductive value := VInt (z : Z) | VStr (t : str) | VList (l : list value) | VFun (c : closure).

Inductive err := EStuck | EName | EIndex | ENotCore.
Inductive xres (A : Type) := XOk (x : A) | XErr (e : err) | XFuel.
Arguments XOk {A}. Arguments XErr {A}. Arguments XFuel {A}.

Definition xbind {A B} (r : xres A) (f : A -> xres B) : xres B :=
  match r with XOk x => f x | XErr e => XErr e | XFuel => XFuel end.
Notation "'xdo' x <- e ; k" := (xbind e (fun x => k)) (at level 200, x pattern, e at level 100, k at level 200).
Definition of_opt {A} (o : option A) : xres A := match o with Some x => XOk x | None => XErr EStuck end.

Fixpoint mapM {A B} (f : A -> option B) (l : list A) : option (list B) :=
  match l with
  | [] => Some []
  | x :: r => match f x, mapM f r with Some y, Some ys => Some (y :: ys) | _, _ => None end
  end.

(* ---- the interpreter state ------------------------------------------------------------------
   stk      the `stack` variable of the code being executed, TOP FIRST
   ctxv     ctx.context_values, top first (Context(): [0])
   top_in   ctx.inputs[0] = [values, cursor]
   inner    ctx.inputs[1:], innermost scope first
   fstack   ctx.function_stack, innermost first (None: a lambda entered with self=None);
            sdepth = len(ctx.stacks)
   reg      ctx.register; vars = the VAR_<name> globals of the exec namespace;
   heap     the frames of every def entered so far that has local VAR_<name>s: name -> cell (None =
            not assigned yet); frames are never dropped, closures may outlive the call;
   cur      the frames the running code sees, innermost first ([] at module level);
   this     the Python local `this` of the running def (the function itself)
   out      everything printed so far; printed = ctx.printed *)
Definition scope := (list value * nat)%type.
Record state := mkSt {
  stk : list value;
  ctxv : list value;
  top_in : scope;
  inner : list scope;
  fstack : list (option closure);
  sdepth : nat;
  reg : value;
  vars : list (str * value);
  heap : list (list (str * option value));
  cur : list nat;
  this : option closure;
  out : str;
  printed : bool }.

Definition set_stk (s : state) (x : list value) : state :=
  mkSt x (ctxv s) (top_in s) (inner s) (fstack s) (sdepth s) (reg s) (vars s) (heap s) (cur s) (this s) (out s) (printed s).
Definition set_ctxv (s : state) (x : list value) : state :=
  mkSt (stk s) x (top_in s) (inner s) (fstack s) (sdepth s) (reg s) (vars s) (heap s) (cur s) (this s) (out s) (printed s).
Definition set_top_in (s : state) (x : scope) : state :=
  mkSt (stk s) (ctxv s) x (inner s) (fstack s) (sdepth s) (reg s) (vars s) (heap s) (cur s) (this s) (out s) (printed s).
Definition set_inner (s : state) (x : list scope) : state :=
  mkSt (stk s) (ctxv s) (top_in s) x (fstack s) (sdepth s) (reg s) (vars s) (heap s) (cur s) (this s) (out s) (printed s).
Definition set_fstack (s : state) (x : list (option closure)) : state :=
  mkSt (stk s) (ctxv s) (top_in s) (inner s) x (sdepth s) (reg s) (vars s) (heap s) (cur s) (this s) (out s) (printed s).
Definition set_sdepth (s : state) (x : nat) : state :=
  mkSt (stk s) (ctxv s) (top_in s) (inner s) (fstack s) x (reg s) (vars s) (heap s) (cur s) (this s) (out s) (printed s).
Definition set_reg (s : state) (x : value) : state :=
  mkSt (stk s) (ctxv s) (top_in s) (inner s) (fstack s) (sdepth s) x (vars s) (heap s) (cur s) (this s) (out s) (printed s).
Definition set_vars (s : state) (x : list (str * value)) : state :=
  mkSt (stk s) (ctxv s) (top_in s) (inner s) (fstack s) (sdepth s) (reg s) x (heap s) (cur s) (this s) (out s) (printed s).
Definition set_heap (s : state) (x : list (list (str * option value))) : state :=
  mkSt (stk s) (ctxv s) (top_in s) (inner s) (fstack s) (sdepth s) (reg s) (vars s) x (cur s) (this s) (out s) (printed s).
Definition set_cur (s : state) (x : list nat) : state :=
  mkSt (stk s) (ctxv s) (top_in s) (inner s) (fstack s) (sdepth s) (reg s) (vars s) (heap s) x (this s) (out s) (printed s).
Definition set_this (s : state) (x : option closure) : state :=
  mkSt (stk s) (ctxv s) (top_in s) (inner s) (fstack s) (sdepth s) (reg s) (vars s) (heap s) (cur s) x (out s) (printed s).
Definition emit (s : state) (text : str) : state :=
  mkSt (stk s) (ctxv s) (top_in s) (inner s) (fstack s) (sdepth s) (reg s) (vars s) (heap s) (cur s) (this s) (out s ++ text) true.

Definition push (v : value) (s : state) : state := set_stk s (v :: stk s).

(* run-time flags that change the semantics: ctx.range_start, ctx.range_end *)
Record cfg := mkCfg { range_start : Z; range_end : Z }.

(* ---- input (helpers.get_input, helpers.pop; cf. Model/Input.v) ------------------------------- *)
Definition serve (sc : scope) : value := nth (Nat.modulo (snd sc) (length (fst sc))) (fst sc) (VInt 0).

(* the branch `if ctx.use_top_input:`; stdin is empty, so an empty input list reads 0 *)
Definition get_top (s : state) : state * value :=
  match fst (top_in s) with
  | [] => (s, VInt 0)
  | _ => (set_top_in s (fst (top_in s), S (snd (top_in s))), serve (top_in s))
  end.

(* get_input with use_top_input = False: the innermost scope; with a single scope an
   empty one falls back to the use_top branch; an empty function scope reads 0 *)
Definition get_input (s : state) : state * value :=
  match inner s with
  | [] => get_top s
  | sc :: r =>
      match fst sc with
      | [] => (s, VInt 0)
      | _ => (set_inner s ((fst sc, S (snd sc)) :: r), serve sc)
      end
  end.

(* pop(stack, 1, ctx) *)
Definition pop1 (s : state) : state * value :=
  match stk s with
  | x :: r => (set_stk s r, x)
  | [] => get_input s
  end.

(* pop(stack, k, ctx): the popped items in popping order *)
Fixpoint popn (k : nat) (s : state) : state * list value :=
  match k with
  | O => (s, [])
  | S k' => let (s1, x) := pop1 s in let (s2, xs) := popn k' s1 in (s2, x :: xs)
  end.

Definition arity_nat (z : Z) : nat := Z.to_nat z.

(* wrapify(arg_stack, pop(arg_stack, 1, ctx=ctx), ctx=ctx): the count comes from the stack; range(count)
   of a negative count is empty; a count that is not a number is outside the domain, and so is one
   above 5000 *)
Definition pop_star (s : state) : option (state * list value) :=
  let (s1, v) := pop1 s in
  match v with
  | VInt z => if z >? 5000 then None else Some (popn (Z.to_nat z) s1)
  | _ => None
  end.

(* ---- numbers as digit lists (helpers.digits on an int) ----------------------------------------- *)
Definition digit_vals (z : Z) : list value :=
  map (fun c => VInt (Z.of_N (c - 48))) (N_to_dec (Z.abs_N z)).
(* iterable(int) without the range type: the digits; a negative number yields the string "-"
   first, which is outside the domain *)
Definition digits_of (z : Z) : option (list value) := if z <? 0 then None else Some (digit_vals z).

(* helpers.reverse_number *)
Definition reverse_number (z : Z) : Z :=
  Z.sgn z * Z.of_N (dec_value (rev (N_to_dec (Z.abs_N z))) 0%N).

(* LazyList(range(ctx.range_start, int(item) + ctx.range_end)); longer than 5000 is outside the model *)
Definition range_list (c : cfg) (z : Z) : option (list value) :=
  let n := z + range_end c - range_start c in
  if n >? 5000 then None
  else Some (map (fun i => VInt (range_start c + Z.of_nat i)) (seq 0 (Z.to_nat n))).

(* a string iterates over its characters (one-character strings) *)
Definition chars_of (t : str) : list value := map (fun c => VStr [c]) t.

(* iterable(x, range, ctx) *)
Definition iter_range (c : cfg) (v : value) : option (list value) :=
  match v with VInt z => range_list c z | VStr t => Some (chars_of t) | VList l => Some l | VFun _ => None end.
(* iterable(x, ctx=ctx) *)
Definition iter_digits (v : value) : option (list value) :=
  match v with VInt z => digits_of z | VStr t => Some (chars_of t) | VList l => Some l | VFun _ => None end.

(* ---- scalars: numbers and strings (helpers.primitive_type) ------------------------------------------------ *)
Definition b2z (b : bool) : Z := if b then 1 else 0.
Definition is_scalar (v : value) : bool := match v with VInt _ | VStr _ => true | _ => false end.

(* Python compares strings by code point *)
Fixpoint str_ltb (a b : str) : bool :=
  match a, b with
  | _, [] => false
  | [], _ :: _ => true
  | x :: a', y :: b' => if (x <? y)%N then true else if (y <? x)%N then false else str_ltb a' b'
  end.

(* s * n; more than 5000 copies are outside the model *)
Definition repeat_str (s : str) (n : Z) : option str :=
  if n >? 5000 then None else Some (concat (repeat s (Z.to_nat n))).

(* lhs.replace(rhs, ""): every non-overlapping occurrence, left to right; an empty pattern changes nothing *)
Fixpoint is_prefix (p s : str) : bool :=
  match p, s with
  | [], _ => true
  | x :: p', y :: s' => N.eqb x y && is_prefix p' s'
  | _ :: _, [] => false
  end.
Fixpoint remove_all (fuel : nat) (s p : str) : str :=
  match fuel with
  | O => s
  | S f =>
      match s with
      | [] => []
      | c :: r => if is_prefix p s then remove_all f (skipn (length p) s) p else c :: remove_all f r p
      end
  end.
Definition str_remove (s p : str) : str :=
  match p with [] => s | _ => remove_all (S (length s)) s p end.

(* helpers.ring_translate(string, map_source) *)
Definition ring_translate (s m : str) : str :=
  map (fun c => match find_index c m with
                | Some i => nth (N.to_nat ((i + 1) mod N.of_nat (length m))) m c
                | None => c
                end) s.

(* str.swapcase / the other string overloads below are modelled for ASCII text only *)
Definition ascii_only (s : str) : bool := forallb (fun c => (c <? 128)%N) s.
Definition swapcase (s : str) : str :=
  map (fun c => if ((65 <=? c) && (c <=? 90))%N then (c + 32)%N
                else if ((97 <=? c) && (c <=? 122))%N then (c - 32)%N else c) s.

(* the scalar overloads of the arithmetic elements (elements.add, subtract, multiply, equals, less_than,
   greater_than, negate, increment, decrement); None = outside the domain *)
Definition add_s (a b : value) : option value :=
  match a, b with
  | VInt x, VInt y => Some (VInt (x + y))
  | VInt x, VStr t => Some (VStr (Z_to_dec x ++ t))           (* str(lhs) + rhs *)
  | VStr s, VInt y => Some (VStr (s ++ Z_to_dec y))           (* lhs + str(rhs) *)
  | VStr s, VStr t => Some (VStr (s ++ t))
  | _, _ => None
  end.
Definition sub_s (a b : value) : option value :=
  match a, b with
  | VInt x, VInt y => Some (VInt (x - y))
  | VInt x, VStr t => option_map (fun d => VStr (d ++ t)) (repeat_str [45%N] x)     (* ("-" * lhs) + rhs *)
  | VStr s, VInt y => option_map (fun d => VStr (s ++ d)) (repeat_str [45%N] y)     (* lhs + ("-" * rhs) *)
  | VStr s, VStr t => Some (VStr (str_remove s t))                                  (* lhs.replace(rhs, "") *)
  | _, _ => None
  end.
Definition mul_s (a b : value) : option value :=
  match a, b with
  | VInt x, VInt y => Some (VInt (x * y))
  | VInt x, VStr t => option_map VStr (repeat_str t x)
  | VStr s, VInt y => option_map VStr (repeat_str s y)
  | VStr s, VStr t => Some (VStr (ring_translate s t))
  | _, _ => None
  end.
Definition cmp_s (fz : Z -> Z -> bool) (fs : str -> str -> bool) (a b : value) : option value :=
  match a, b with
  | VInt x, VInt y => Some (VInt (b2z (fz x y)))
  | VInt x, VStr t => Some (VInt (b2z (fs (Z_to_dec x) t)))   (* str(lhs) ? rhs *)
  | VStr s, VInt y => Some (VInt (b2z (fs s (Z_to_dec y))))
  | VStr s, VStr t => Some (VInt (b2z (fs s t)))
  | _, _ => None
  end.
Definition eq_s := cmp_s Z.eqb str_eqb.
Definition lt_s := cmp_s Z.ltb str_ltb.
Definition gt_s := cmp_s Z.gtb (fun s t => str_ltb t s).
Definition neg_s (a : value) : option value :=
  match a with
  | VInt x => Some (VInt (- x))
  | VStr s => if ascii_only s then Some (VStr (swapcase s)) else None
  | _ => None
  end.
Definition incr_s (a : value) : option value :=
  match a with
  | VInt x => Some (VInt (x + 1))
  | VStr s => Some (VStr (map (fun c => if N.eqb c 32 then 48%N else c) s))        (* lhs.replace(" ", "0") *)
  | _ => None
  end.
Definition decr_s (a : value) : option value :=
  match a with
  | VInt x => Some (VInt (x - 1))
  | VStr s => Some (VStr (s ++ [45%N]))                                            (* lhs + "-" *)
  | _ => None
  end.
Definition not_s (a : value) : option value :=                                     (* vectorised_not: int(not lhs) *)
  match a with
  | VInt x => Some (VInt (b2z (x =? 0)))
  | VStr s => Some (VInt (b2z (match s with [] => true | _ => false end)))
  | _ => None
  end.

(* ---- vectorising (elements.vectorise, vy_zip with zero fill): f acts on scalars ----------------------------- *)
Fixpoint vec1 (f : value -> option value) (v : value) : option value :=
  match v with
  | VList l =>
      option_map VList
        ((fix go (l : list value) : option (list value) :=
            match l with
            | [] => Some []
            | x :: r => match vec1 f x, go r with Some y, Some ys => Some (y :: ys) | _, _ => None end
            end) l)
  | VFun _ => None
  | _ => f v
  end.

(* a is a scalar *)
Fixpoint vec_r (f : value -> value -> option value) (a : value) (b : value) : option value :=
  match b with
  | VList l =>
      option_map VList
        ((fix go (l : list value) : option (list value) :=
            match l with
            | [] => Some []
            | x :: r => match vec_r f a x, go r with Some y, Some ys => Some (y :: ys) | _, _ => None end
            end) l)
  | VFun _ => None
  | _ => f a b
  end.

(* b is a scalar *)
Fixpoint vec_l (f : value -> value -> option value) (a : value) (b : value) : option value :=
  match a with
  | VList l =>
      option_map VList
        ((fix go (l : list value) : option (list value) :=
            match l with
            | [] => Some []
            | x :: r => match vec_l f x b, go r with Some y, Some ys => Some (y :: ys) | _, _ => None end
            end) l)
  | VFun _ => None
  | _ => f a b
  end.

Fixpoint vec2 (f : value -> value -> option value) (a b : value) {struct a} : option value :=
  match a with
  | VFun _ => None
  | VList la =>
      match b with
      | VFun _ => None
      | VList lb =>
          option_map VList
            ((fix zip (la lb : list value) {struct la} : option (list value) :=
                match la, lb with
                | [], _ => mapM (vec_r f (VInt 0)) lb                (* left exhausted: left_item = 0 *)
                | x :: ra, [] =>
                    match vec_l f x (VInt 0), zip ra [] with Some y, Some ys => Some (y :: ys) | _, _ => None end
                | x :: ra, y :: rb =>
                    match vec2 f x y, zip ra rb with Some z, Some zs => Some (z :: zs) | _, _ => None end
                end) la lb)
      | _ => vec_l f a b
      end
  | _ => vec_r f a b
  end.



(* ---- truth ------------------------------------------------------------------------------------------
   `if boolify(condition, ctx):` -- a list is vectorised into a lazy list, whose truth is
   "has a first item"; a function value as a condition is outside the domain (the documents
   say it is called first, the implementation takes it as true; see the report) *)
Definition truthy (v : value) : option bool :=
  match v with
  | VInt z => Some (negb (z =? 0))
  | VStr t => Some (match t with [] => false | _ => true end)                      (* int(bool(lhs)): "0" is true *)
  | VList l => Some (match l with [] => false | _ => true end)
  | VFun _ => None
  end.

(* `not lhs` of the element ¬ *)
Definition py_not (v : value) : Z :=
  match v with
  | VInt z => b2z (z =? 0)
  | VStr t => b2z (match t with [] => true | _ => false end)
  | VList l => b2z (match l with [] => true | _ => false end)
  | VFun _ => 0
  end.

(* ---- printing (vy_str / vy_repr / vy_print / LazyList.output for ints and lists) ------------------ *)
Definition s_open : str := [10216; 32]%N.      (* "⟨ " *)
Definition s_close : str := [32; 10217]%N.     (* " ⟩" *)
Definition s_sep : str := [32; 124; 32]%N.     (* " | " *)

Fixpoint repr (v : value) : option str :=
  match v with
  | VInt z => Some (Z_to_dec z)
  | VStr t => Some ([96%N] ++ flat_map (fun c => if N.eqb c 96 then [92; 96]%N else [c]) t ++ [96%N])   (* `...` with \` *)
  | VList l =>
      match (fix go (l : list value) : option (list str) :=
               match l with
               | [] => Some []
               | x :: r => match repr x, go r with Some y, Some ys => Some (y :: ys) | _, _ => None end
               end) l with
      | Some parts => Some (s_open ++ join_with s_sep parts ++ s_close)
      | None => None
      end
  | VFun _ => None
  end.

(* a top-level sympy integer goes through sympy.N(lhs, 50): exact below 10^40 *)
Definition print_bound : Z := 10 ^ 40.
Definition print_text (v : value) : option str :=
  match v with
  | VInt z => if Z.abs z <? print_bound then Some (Z_to_dec z) else None
  | VStr t => Some t                                                             (* print(lhs): the text itself *)
  | _ => repr v
  end.

Definition vy_print (v : value) (s : state) : xres state :=
  match print_text v with
  | Some t => XOk (emit s (t ++ [10%N]))
  | None => XErr EStuck
  end.

(* ---- side-effect freedom of a function body ----------------------------------------------------------
   what may stand in a body that the implementation applies lazily: nothing that prints,
   reads or writes the register, a variable or the program's input, or calls by name *)
Definition impure_keys : str := [44; 8230; 163; 165; 63]%N.     (* , … £ ¥ ? *)

Fixpoint pure_struct (x : struct) : bool :=
  match x with
  | SGeneric t =>
      match tk t with
      | KNumber | KString | KCharacter | KCompString => true
      | KGeneral => match tv t with [k] => negb (mem k impure_keys) | _ => false end
      | _ => false
      end
  | SIf bs => forallb (forallb pure_struct) bs
  | SFor names b => match names with [] => forallb pure_struct b | _ => false end
  | SWhile c b => forallb pure_struct c && forallb pure_struct b
  | SLambda _ b => forallb pure_struct b
  | SLamOp _ b => forallb pure_struct b
  | SList its => forallb (forallb pure_struct) its
  | SMod1 m a => negb (N.eqb m 38) && pure_struct a
  | SMod2 _ a b => pure_struct a && pure_struct b
  | SBreak _ => true
  | SRecurse (Some PFor) | SRecurse (Some PLambda) => true      (* continue; `this(...)`: the same pure body *)
  | _ => false                                                  (* incl. x under a modifier: reads ctx.function_stack when forced *)
  end.
Definition pure_list (l : list struct) : bool := forallb pure_struct l.

Fixpoint no_fun (v : value) : bool :=
  match v with
  | VInt _ | VStr _ => true
  | VList l => forallb no_fun l
  | VFun _ => false
  end.

Definition lazy_ok (c : closure) (args : list value) : bool :=
  pure_list (c_body c) && forallb no_fun args.

(* ---- calling function values ---------------------------------------------------------------------------
   The evaluators supply
     app c args s      helpers.safe_apply(c, *args, ctx=ctx): result value; `stk s` is untouched
     callstk c s       elements.function_call after the function was popped: the callee
                       takes its arguments from `stk s` and its result(s) are pushed *)
Definition app_t := closure -> list value -> state -> xres (value * state).
Definition callstk_t := closure -> state -> xres state.

(* a stable sort of (key, item) pairs by integer key (Python's sorted) *)
Fixpoint insert_by (k : Z) (v : value) (l : list (Z * value)) : list (Z * value) :=
  match l with
  | [] => [(k, v)]
  | (k', v') :: r => if k <=? k' then (k, v) :: l else (k', v') :: insert_by k v r
  end.
Definition sort_pairs (l : list (Z * value)) : list (Z * value) :=
  fold_right (fun kv acc => insert_by (fst kv) (snd kv) acc) [] l.

Section WithCalls.
  Variable cf : cfg.
  Variable app : app_t.
  Variable callstk : callstk_t.

  (* a lazily evaluated application *)
  Definition lazy_app (c : closure) (args : list value) (s : state) : xres (value * state) :=
    if lazy_ok c args then app c args s else XErr EStuck.

  (* map over the items, left to right *)
  Fixpoint map_app (c : closure) (mk : value -> list value) (items : list value) (s : state)
    : xres (list value * state) :=
    match items with
    | [] => XOk ([], s)
    | x :: r =>
        xdo (y, s1) <- lazy_app c (mk x) s;
        xdo (ys, s2) <- map_app c mk r s1;
        XOk (y :: ys, s2)
    end.

  Fixpoint filter_app (c : closure) (items : list value) (s : state) : xres (list value * state) :=
    match items with
    | [] => XOk ([], s)
    | x :: r =>
        xdo (y, s1) <- lazy_app c [x] s;
        xdo b <- of_opt (truthy y);
        xdo (ys, s2) <- filter_app c r s1;
        XOk (if b then x :: ys else ys, s2)
    end.

  (* helpers.foldl over a non-empty tail, eager *)
  Fixpoint fold_app (c : closure) (acc : value) (items : list value) (s : state) : xres (value * state) :=
    match items with
    | [] => XOk (acc, s)
    | x :: r => xdo (y, s1) <- app c [acc; x] s; fold_app c y r s1
    end.

  (* helpers.scanl: the running values after the first *)
  Fixpoint scan_app (c : closure) (acc : value) (items : list value) (s : state)
    : xres (list value * state) :=
    match items with
    | [] => XOk ([acc], s)
    | x :: r =>
        xdo (y, s1) <- lazy_app c [acc; x] s;
        xdo (ys, s2) <- scan_app c y r s1;
        XOk (acc :: ys, s2)
    end.

  (* sorted(iterable(vector), key=lambda x: safe_apply(function, x)): every key is computed, in
     order, before anything is compared; integer keys only *)
  Fixpoint key_app (c : closure) (items : list value) (s : state) : xres (list (Z * value) * state) :=
    match items with
    | [] => XOk ([], s)
    | x :: r =>
        xdo (k, s1) <- app c [x] s;
        match k with
        | VInt z => xdo (ks, s2) <- key_app c r s1; XOk ((z, x) :: ks, s2)
        | _ => XErr EStuck
        end
    end.

  Definition un (f : value -> option value) (s : state) : xres state :=
    let (s1, a) := pop1 s in
    xdo r <- of_opt (f a); XOk (push r s1).

  (* rhs, lhs = pop(stack, 2, ctx): rhs is the top *)
  Definition bin (f : value -> value -> option value) (s : state) : xres state :=
    let (s1, rhs) := pop1 s in let (s2, lhs) := pop1 s1 in
    xdo r <- of_opt (f lhs rhs); XOk (push r s2).

  Definition z_length (l : list value) : value := VInt (Z.of_nat (length l)).

  Fixpoint flat (v : value) : list value :=
    match v with
    | VList l => flat_map flat l
    | _ => [v]
    end.

  Definition sum_values (l : list value) : option value :=
    match l with
    | [] => Some (VInt 0)
    | x :: r => fold_left (fun acc y => match acc with Some a => vec2 add_s a y | None => None end) r (Some x)
    end.

  (* ---- further elements of the core (second table: `elem_more`) -------------------------------------------
     shapes: a constant pushed, `un`, `bin`, one value popped and two pushed (`un2`), a whole-stack
     permutation (`stack_op`).  None = outside the domain (EStuck: such runs are not compared). *)
  Definition un2 (f : value -> option (value * value)) (s : state) : xres state :=
    let (s1, a) := pop1 s in
    xdo r <- of_opt (f a); XOk (push (snd r) (push (fst r) s1)).

  Definition stack_op (f : list value -> option (list value)) (s : state) : xres state :=
    xdo l <- of_opt (f (stk s)); XOk (set_stk s l).

  (* Python's truth of a value (`lhs and rhs`, any(), all()) *)
  Definition py_truth (v : value) : bool := Z.eqb (py_not v) 0.

  Definition leq_s := cmp_s Z.leb (fun s t => negb (str_ltb t s)).
  Definition geq_s := cmp_s Z.geb (fun s t => negb (str_ltb s t)).
  (* not_equals does not vectorise; lists compare with Python's != (outside the domain) *)
  Definition neq_s (a b : value) : option value :=
    match eq_s a b with Some (VInt z) => Some (VInt (1 - z)) | _ => None end.

  (* str.split() whitespace below 128 *)
  Definition is_space (c : N) : bool := (((9 <=? c) && (c <=? 13)) || ((28 <=? c) && (c <=? 32)))%N.
  Definition upper (t : str) : str := map (fun c => if ((97 <=? c) && (c <=? 122))%N then (c - 32)%N else c) t.
  Definition lower (t : str) : str := map (fun c => if ((65 <=? c) && (c <=? 90))%N then (c + 32)%N else c) t.

  (* LazyList(range(lo, hi)); more than 5000 items are outside the model *)
  Definition zrange (lo hi : Z) : option value :=
    if hi - lo >? 5000 then None
    else Some (VList (map (fun i => VInt (lo + Z.of_nat i)) (seq 0 (Z.to_nat (hi - lo))))).

  Definition all_ints (l : list value) : option (list Z) :=
    mapM (fun v => match v with VInt z => Some z | _ => None end) l.

  (* monadic_maximum / monadic_minimum: deep_flatten, then a fold with less_than; integer leaves only *)
  Definition extreme (pick : Z -> Z -> Z) (a : value) : option value :=
    match (match a with
           | VInt z => digits_of z
           | VList _ => Some (flat a)
           | _ => None
           end) with
    | Some leaves =>
        match all_ints leaves with
        | Some [] => Some (VList [])
        | Some (z :: r) => Some (VInt (fold_left pick r z))
        | None => None
        end
    | None => None
    end.

  (* dyadic_maximum / dyadic_minimum on two numbers or two strings *)
  Definition pick2 (want_gt : bool) (a b : value) : option value :=
    match a, b with
    | VInt x, VInt y => Some (if (if want_gt then x >? y else x <? y) then a else b)
    | VStr s, VStr t => Some (if (if want_gt then str_ltb t s else str_ltb s t) then a else b)
    | _, _ => None
    end.

  Definition merge_v (a b : value) : option value :=
    match a, b with
    | VList la, VList lb => Some (VList (la ++ lb))
    | VList la, _ => Some (VList (la ++ [b]))
    | _, VList lb => Some (VList (a :: lb))
    | VInt _, VInt _ => None                              (* vy_eval(str(lhs) + str(rhs)): not modelled *)
    | _, _ => add_s a b
    end.

  Definition reverse_v (a : value) : option value :=
    match a with
    | VInt z => Some (VInt (reverse_number z))
    | VStr t => Some (VStr (rev t))
    | VList l => Some (VList (rev l))
    | VFun _ => None
    end.

  Definition prod_values (l : list value) : option value :=
    match l with
    | [] => Some (VInt 0)
    | x :: r => fold_left (fun acc y => match acc with Some a => vec2 mul_s a y | None => None end) r (Some x)
    end.

  (* vy_zip without functions: zero fill *)
  Fixpoint zip0 (la lb : list value) : list value :=
    match la, lb with
    | [], _ => map (fun y => VList [VInt 0; y]) lb
    | x :: ra, [] => VList [x; VInt 0] :: zip0 ra []
    | x :: ra, y :: rb => VList [x; y] :: zip0 ra rb
    end.

  Fixpoint nodup_by (eqb : value -> value -> bool) (seen l : list value) : list value :=
    match l with
    | [] => []
    | x :: r => if existsb (eqb x) seen then nodup_by eqb seen r else x :: nodup_by eqb (seen ++ [x]) r
    end.
  (* Python's == between two scalars of a Vyxal list: a number never equals a string *)
  Definition scalar_eqb (a b : value) : bool :=
    match a, b with
    | VInt x, VInt y => Z.eqb x y
    | VStr s, VStr t => str_eqb s t
    | _, _ => false
    end.
  Definition nodup_chars (t : str) : str :=
    (fix go (seen t : str) : str :=
       match t with [] => [] | c :: r => if mem c seen then go seen r else c :: go (c :: seen) r end) [] t.

  (* a stable insertion sort by a "less or equal" test (Python's sorted on one kind of scalars) *)
  Fixpoint insert_le {A} (le : A -> A -> bool) (x : A) (l : list A) : list A :=
    match l with
    | [] => [x]
    | y :: r => if le y x then y :: insert_le le x r else x :: l
    end.
  Definition isort {A} (le : A -> A -> bool) (l : list A) : list A := fold_left (fun acc x => insert_le le x acc) l [].

  Definition all_strs (l : list value) : option (list str) :=
    mapM (fun v => match v with VStr t => Some t | _ => None end) l.

  Fixpoint every_other {A} (l : list A) : list A :=
    match l with
    | [] => []
    | x :: r => x :: match r with [] => [] | _ :: r' => every_other r' end
    end.

  Fixpoint interleave_l {A} (la lb : list A) : list A :=
    match la with
    | [] => lb
    | x :: ra => x :: match lb with [] => ra | y :: rb => y :: interleave_l ra rb end
    end.

  Definition vstr (v : value) : option str := match v with VStr t => Some t | _ => repr v end.

  Definition more_keys : str :=
    [8320; 8321; 8324; 8326; 8327; 8328; 164; 240; 182; 117; 8222; 8223; 558; 7682; 8743; 8744; 10193;
     8804; 8805; 8800; 8976; 8759; 8322; 551; 178; 37; 71; 103; 8756; 8757; 7715; 7787; 7714; 7786;
     638; 640; 637; 641; 928; 109; 8734; 112; 97; 65; 267; 8776; 122; 90; 85; 83;
     380; 7823; 89; 121; 115; 7819; 106]%N.

  Definition elem_more (k : N) (s : state) : xres state :=
    if (k =? 8320)%N then XOk (push (VInt 10) s)                                           (* ₀ *)
    else if (k =? 8321)%N then XOk (push (VInt 100) s)                                     (* ₁ *)
    else if (k =? 8324)%N then XOk (push (VInt 26) s)                                      (* ₄ *)
    else if (k =? 8326)%N then XOk (push (VInt 64) s)                                      (* ₆ *)
    else if (k =? 8327)%N then XOk (push (VInt 128) s)                                     (* ₇ *)
    else if (k =? 8328)%N then XOk (push (VInt 256) s)                                     (* ₈ *)
    else if (k =? 164)%N then XOk (push (VStr []) s)                                       (* ¤ *)
    else if (k =? 240)%N then XOk (push (VStr [32%N]) s)                                   (* ð *)
    else if (k =? 182)%N then XOk (push (VStr [10%N]) s)                                   (* ¶ *)
    else if (k =? 117)%N then XOk (push (VInt (-1)) s)                                     (* u *)
    else if (k =? 8222)%N then                                                             (* „ temp[1:] + [temp[0]]: the bottom goes on top *)
        stack_op (fun l => match l with [] => None | _ => Some (last l (VInt 0) :: removelast l) end) s
    else if (k =? 8223)%N then                                                             (* ‟ [temp[-1]] + temp[:-1]: the top goes to the bottom *)
        stack_op (fun l => match l with [] => None | x :: r => Some (r ++ [x]) end) s
    else if (k =? 558)%N then                                                              (* Ȯ over *)
        match stk s with
        | _ :: y :: _ => XOk (push y s)
        | _ => let (s1, a) := get_input s in XOk (push a s1)
        end
    else if (k =? 7682)%N then                                                             (* Ḃ bifurcate *)
        un2 (fun a => option_map (fun r => (a, r)) (reverse_v a)) s
    else if (k =? 8743)%N then bin (fun a b => Some (if py_truth a then b else a)) s       (* ∧ lhs and rhs *)
    else if (k =? 8744)%N then bin (fun a b => Some (if py_truth a then a else b)) s       (* ∨ lhs or rhs *)
    else if (k =? 10193)%N then bin (fun a b => Some (if py_truth b then a else b)) s      (* ⟑ rhs and lhs *)
    else if (k =? 8804)%N then bin (vec2 leq_s) s                                          (* ≤ *)
    else if (k =? 8805)%N then bin (vec2 geq_s) s                                          (* ≥ *)
    else if (k =? 8800)%N then bin neq_s s                                                 (* ≠ *)
    else if (k =? 8976)%N then                                                             (* ⌐ 1 - a *)
        un (vec1 (fun a => match a with VInt z => Some (VInt (1 - z)) | _ => None end)) s
    else if (k =? 8759)%N then                                                             (* ∷ int(lhs % 2) *)
        un (vec1 (fun a => match a with VInt z => Some (VInt (z mod 2)) | _ => None end)) s
    else if (k =? 8322)%N then                                                             (* ₂ is_even: does not vectorise *)
        un (fun a => match a with
                     | VInt z => Some (VInt (b2z (z mod 2 =? 0)))
                     | VStr t => Some (VInt (b2z (Nat.even (length t))))
                     | VList l => Some (VInt (b2z (Nat.even (length l))))
                     | VFun _ => None
                     end) s
    else if (k =? 551)%N then                                                              (* ȧ abs / remove whitespace *)
        un (vec1 (fun a => match a with
                           | VInt z => Some (VInt (Z.abs z))
                           | VStr t => if ascii_only t then Some (VStr (filter (fun c => negb (is_space c)) t)) else None
                           | _ => None
                           end)) s
    else if (k =? 178)%N then                                                              (* ² exponent(lhs, 2) *)
        un (vec1 (fun a => match a with VInt z => Some (VInt (z * z)) | _ => None end)) s
    else if (k =? 37)%N then                                                               (* % lhs % rhs *)
        bin (vec2 (fun a b => match a, b with
                              | VInt x, VInt y => if y =? 0 then None else Some (VInt (x mod y))
                              | _, _ => None
                              end)) s
    else if (k =? 71)%N then un (extreme Z.max) s                                          (* G *)
    else if (k =? 103)%N then un (extreme Z.min) s                                         (* g *)
    else if (k =? 8756)%N then bin (pick2 true) s                                          (* ∴ *)
    else if (k =? 8757)%N then bin (pick2 false) s                                         (* ∵ *)
    else if (k =? 7715)%N then                                                             (* ḣ head, then the rest *)
        un2 (fun a => match a with
                      | VInt z => match digits_of z with
                                  | Some (x :: r) => Some (x, VList r)
                                  | _ => None
                                  end
                      | VStr t => Some (VStr (firstn 1 t), VStr (tl t))
                      | VList l => Some (hd (VInt 0) l, VList (tl l))
                      | VFun _ => None
                      end) s
    else if (k =? 7787)%N then                                                             (* ṫ all but the last, then the last *)
        un2 (fun a => match a with
                      | VInt z => match digits_of z with
                                  | Some l => Some (VList (removelast l), last l (VInt 0))
                                  | None => None
                                  end
                      | VStr t => Some (VStr (removelast t), VStr (match rev t with c :: _ => [c] | [] => [] end))
                      | VList l => Some (VList (removelast l), last l (VInt 0))
                      | VFun _ => None
                      end) s
    else if (k =? 7714)%N then                                                             (* Ḣ lhs[1:] if lhs else [] *)
        un (fun a => match a with
                     | VStr [] => Some (VList [])
                     | VStr t => Some (VStr (tl t))
                     | VList l => Some (VList (tl l))
                     | _ => None
                     end) s
    else if (k =? 7786)%N then                                                             (* Ṫ all but the last *)
        un (fun a => match a with
                     | VStr t => Some (VStr (removelast t))
                     | VList l => Some (VList (removelast l))
                     | _ => None
                     end) s
    else if (k =? 638)%N then                                                              (* ɾ range(1, a + 1) / upper *)
        un (vec1 (fun a => match a with
                           | VInt z => zrange 1 (z + 1)
                           | VStr t => if ascii_only t then Some (VStr (upper t)) else None
                           | _ => None end)) s
    else if (k =? 640)%N then                                                              (* ʀ range(0, a + 1) *)
        un (vec1 (fun a => match a with VInt z => zrange 0 (z + 1) | _ => None end)) s
    else if (k =? 637)%N then                                                              (* ɽ range(1, a) / lower *)
        un (vec1 (fun a => match a with
                           | VInt z => zrange 1 z
                           | VStr t => if ascii_only t then Some (VStr (lower t)) else None
                           | _ => None end)) s
    else if (k =? 641)%N then                                                              (* ʁ range(0, a) / a + reversed(a)[1:] *)
        un (vec1 (fun a => match a with
                           | VInt z => zrange 0 z
                           | VStr t => Some (VStr (t ++ tl (rev t)))
                           | _ => None end)) s
    else if (k =? 928)%N then                                                              (* Π foldl(multiply, iterable(lhs)) *)
        un (fun a => match iter_digits a with Some l => prod_values l | None => None end) s
    else if (k =? 109)%N then                                                              (* m mirror *)
        un (fun a => match a with
                     | VInt z => Some (VInt (z + reverse_number z))
                     | VStr t => Some (VStr (t ++ rev t))
                     | VList l => Some (VList (l ++ rev l))
                     | VFun _ => None
                     end) s
    else if (k =? 8734)%N then                                                             (* ∞ palindromise *)
        un (fun a => match a with
                     | VInt z => Some (VInt (z + reverse_number z))
                     | VStr t => Some (VStr (t ++ rev (removelast t)))
                     | VList l => Some (VList (l ++ rev (removelast l)))
                     | VFun _ => None
                     end) s
    else if (k =? 112)%N then bin (fun a b => merge_v b a) s                               (* p merge(rhs, lhs) *)
    else if (k =? 97)%N then                                                               (* a any / is a capital letter *)
        un (fun a => match a with
                     | VStr [c] => Some (VInt (b2z ((65 <=? c) && (c <=? 91))%N))
                     | VStr t => Some (VList (map (fun c => VInt (b2z ((65 <=? c) && (c <=? 91))%N)) t))
                     | _ => option_map (fun l => VInt (b2z (existsb py_truth l))) (iter_digits a)
                     end) s
    else if (k =? 65)%N then                                                               (* A all / is a vowel *)
        let vowel (c : N) := mem c [97; 101; 105; 111; 117; 65; 69; 73; 79; 85]%N in
        un (fun a => match a with
                     | VStr [c] => Some (VInt (b2z (vowel c)))
                     | VStr t => Some (VList (map (fun c => VInt (b2z (vowel c))) t))
                     | _ => option_map (fun l => VInt (b2z (forallb py_truth l))) (iter_digits a)
                     end) s
    else if (k =? 267)%N then                                                              (* ċ vectorised_not(equals(lhs, 1)) *)
        un (vec1 (fun a => match eq_s a (VInt 1) with Some (VInt z) => Some (VInt (1 - z)) | _ => None end)) s
    else if (k =? 8776)%N then                                                             (* ≈ all items equal the first; scalar items *)
        un (fun a => match iter_digits a with
                     | Some [] => Some (VInt 1)
                     | Some (x :: r) =>
                         if forallb is_scalar (x :: r)
                         then option_map (fun bs => VInt (b2z (forallb (fun b => b) bs)))
                                (mapM (fun y => match eq_s y x with Some (VInt z) => Some (z =? 1) | _ => None end) r)
                         else None
                     | None => None
                     end) s
    else if (k =? 122)%N then                                                              (* z zip with itself *)
        un (fun a => option_map (fun l => VList (zip0 l l)) (iter_digits a)) s
    else if (k =? 90)%N then                                                               (* Z zip *)
        bin (fun a b => match iter_digits a, iter_digits b with
                        | Some la, Some lb => Some (VList (zip0 la lb))
                        | _, _ => None
                        end) s
    else if (k =? 85)%N then                                                               (* U uniquify; scalar items *)
        un (fun a => match a with
                     | VStr t => Some (VStr (nodup_chars t))
                     | _ => match iter_digits a with
                            | Some l => if forallb is_scalar l then Some (VList (nodup_by scalar_eqb [] l)) else None
                            | None => None
                            end
                     end) s
    else if (k =? 83)%N then                                                               (* S vy_str *)
        un (fun a => match a with
                     | VInt z => Some (VStr (Z_to_dec z))
                     | VStr _ => Some a
                     | VList _ => option_map VStr (repr a)
                     | VFun _ => None
                     end) s
    else if (k =? 380)%N then                                                              (* ż range(1, len(iterable(lhs)) + 1) *)
        un (fun a => match iter_digits a with Some l => zrange 1 (Z.of_nat (length l) + 1) | None => None end) s
    else if (k =? 7823)%N then                                                             (* ẏ range(0, len(iterable(lhs))) *)
        un (fun a => match iter_digits a with Some l => zrange 0 (Z.of_nat (length l)) | None => None end) s
    else if (k =? 89)%N then                                                               (* Y interleave *)
        bin (fun a b => match a, b with
                        | VStr s1, VStr s2 => Some (VStr (interleave_l s1 s2))
                        | _, _ => match iter_digits a, iter_digits b with
                                  | Some la, Some lb => Some (VList (interleave_l la lb))
                                  | _, _ => None
                                  end
                        end) s
    else if (k =? 121)%N then                                                              (* y a[::2], a[1::2] *)
        un2 (fun a => match a with
                      | VStr t => Some (VStr (every_other t), VStr (every_other (tl t)))
                      | _ => match iter_digits a with
                             | Some l => Some (VList (every_other l), VList (every_other (tl l)))
                             | None => None
                             end
                      end) s
    else if (k =? 115)%N then                                                              (* s sorted: one kind of scalars *)
        un (fun a => match a with
                     | VStr t => Some (VStr (isort N.leb t))
                     | VList l => match all_ints l, all_strs l with
                                  | Some zs, _ => Some (VList (map VInt (isort Z.leb zs)))
                                  | None, Some ss => Some (VList (map VStr (isort (fun x y => negb (str_ltb y x)) ss)))
                                  | None, None => None
                                  end
                     | _ => None
                     end) s
    else if (k =? 7819)%N then                                                             (* ẋ repeat *)
        bin (fun a b => match a, b with
                        | VFun _, _ | _, VFun _ => None
                        | VStr t, VInt n => option_map VStr (repeat_str t (Z.abs n))
                        | VInt n, VStr t => option_map VStr (repeat_str t (Z.abs n))
                        | VStr t, VStr u => Some (VStr (t ++ u))
                        | VInt n, _ => if Z.abs n >? 5000 then None else Some (VList (repeat b (Z.to_nat (Z.abs n))))
                        | _, VInt n => if Z.abs n >? 5000 then None else Some (VList (repeat a (Z.to_nat (Z.abs n))))
                        | _, _ => None
                        end) s
    else if (k =? 106)%N then                                                              (* j vy_str(rhs).join(map(vy_str, iterable(lhs))) *)
        bin (fun a b => match vstr b, iter_digits a with
                        | Some sep, Some items =>
                            option_map (fun parts => VStr (join_with sep parts)) (mapM vstr items)
                        | _, _ => None
                        end) s
    else XErr ENotCore.

  (* ---- the element table of the core (key = code point of the one-character element) ------------- *)
  Definition core_keys : str :=
    [43; 45; 42; 78; 8250; 8249; 100; 172; 61; 60; 62; 58; 68; 36; 95; 94; 33; 87; 119; 34; 74; 76;
     104; 116; 102; 7768; 8721; 110; 63; 44; 8230; 77; 70; 7777; 8224; 163; 165]%N ++ more_keys.

  Definition elem_pure (k : N) (s : state) : xres state :=
    if (k =? 43)%N then ( bin (vec2 add_s) s                                              (* + add *))
    else
    if (k =? 45)%N then ( bin (vec2 sub_s) s                                              (* - subtract *))
    else
    if (k =? 42)%N then ( bin (vec2 mul_s) s                                              (* * multiply *))
    else
    if (k =? 78)%N then ( un (vec1 neg_s) s                                               (* N negate *))
    else
    if (k =? 8250)%N then ( un (vec1 incr_s) s                                            (* › increment *))
    else
    if (k =? 8249)%N then ( un (vec1 decr_s) s                                            (* ‹ decrement *))
    else
    if (k =? 100)%N then ( un (fun a => vec2 mul_s a (VInt 2)) s                          (* d multiply(lhs, 2) *))
    else
    if (k =? 172)%N then ( un (fun a => Some (VInt (py_not a))) s                         (* ¬ int(not lhs) *))
    else
    if (k =? 61)%N then ( bin (vec2 eq_s) s                          (* = *))
    else
    if (k =? 60)%N then ( bin (vec2 lt_s) s                          (* < *))
    else
    if (k =? 62)%N then ( bin (vec2 gt_s) s                          (* > *))
    else
    if (k =? 58)%N then ( let (s1, a) := pop1 s in XOk (push a (push a s1))               (* : *))
    else
    if (k =? 68)%N then ( let (s1, a) := pop1 s in XOk (push a (push a (push a s1)))      (* D *))
    else
    if (k =? 36)%N then (                                                                 (* $ append(rhs); append(lhs) *)
        let (s1, rhs) := pop1 s in let (s2, lhs) := pop1 s1 in XOk (push lhs (push rhs s2)))
    else
    if (k =? 95)%N then ( XOk (fst (pop1 s))                                              (* _ *))
    else
    if (k =? 94)%N then ( XOk (set_stk s (rev (stk s)))                                   (* ^ stack += wrapify(stack, len(stack)) *))
    else
    if (k =? 33)%N then ( XOk (push (z_length (stk s)) s)                                 (* ! *))
    else
    if (k =? 87)%N then ( XOk (set_stk s [VList (rev (stk s))])                           (* W *))
    else
    if (k =? 119)%N then ( un (fun a => Some (VList [a])) s                               (* w *))
    else
    if (k =? 34)%N then ( bin (fun a b => Some (VList [a; b])) s                          (* double quote: pair *))
    else
    if (k =? 74)%N then (                                                                 (* J merge *)
        bin (fun a b =>
               match a, b with
               | VList la, VList lb => Some (VList (la ++ lb))
               | VList la, _ => Some (VList (la ++ [b]))
               | _, VList lb => Some (VList (a :: lb))
               | VInt _, VInt _ => None                              (* vy_eval(str(lhs) + str(rhs)): not modelled *)
               | _, _ => add_s a b                                   (* number / string: add; string, string: concatenation *)
               end) s)
    else
    if (k =? 76)%N then (                                                                 (* L len(iterable(lhs)) *)
        un (fun a => match a with
                     | VInt z => Some (VInt (Z.of_nat (length (Z_to_dec z))))
                     | VStr t => Some (VInt (Z.of_nat (length t)))
                     | VList l => Some (z_length l)
                     | VFun _ => None
                     end) s)
    else
    if (k =? 104)%N then (                                                                (* h head *)
        un (fun a => match iter_digits a with
                     | Some [] => Some (match a with VStr _ => VStr [] | _ => VInt 0 end)
                     | Some (x :: _) => Some x
                     | None => None
                     end) s)
    else
    if (k =? 116)%N then (                                                                (* t tail *)
        un (fun a => match a with
                     | VInt z => Some (VInt (Z.abs z mod 10))
                     | VStr t => Some (VStr (match rev t with c :: _ => [c] | [] => [] end))
                     | VList l => Some (last l (VInt 0))
                     | VFun _ => None
                     end) s)
    else
    if (k =? 102)%N then (                                                                (* f deep_flatten *)
        un (fun a => match a with
                     | VInt z => option_map VList (digits_of z)
                     | VStr t => Some (VList (chars_of t))
                     | VList _ => Some (VList (flat a))
                     | VFun _ => None
                     end) s)
    else
    if (k =? 7768)%N then (                                                               (* Ṙ reverse *)
        un (fun a => match a with
                     | VInt z => Some (VInt (reverse_number z))
                     | VStr t => Some (VStr (rev t))
                     | VList l => Some (VList (rev l))
                     | VFun _ => None
                     end) s)
    else
    if (k =? 8721)%N then (                                                               (* ∑ vy_sum *)
        un (fun a => match iter_digits a with Some l => sum_values l | None => None end) s)
    else
    if (k =? 110)%N then (                                                                (* n ctx.context_values[-1] *)
        match ctxv s with x :: _ => XOk (push x s) | [] => XErr EIndex end)
    else
    if (k =? 63)%N then ( let (s1, a) := get_top s in XOk (push a s1)                     (* ? *))
    else
    if (k =? 44)%N then ( let (s1, a) := pop1 s in vy_print a s1                          (* , *))
    else
    if (k =? 8230)%N then ( let (s1, a) := pop1 s in xdo s2 <- vy_print a s1; XOk (push a s2)   (* … *))
    else
    if (k =? 163)%N then ( let (s1, a) := pop1 s in XOk (set_reg s1 a)                    (* £ *))
    else
    if (k =? 165)%N then ( XOk (push (reg s) s)                                           (* ¥ *))
    else
    elem_more k s.

  Definition elem_call (k : N) (s : state) : xres state :=
    if (k =? 77)%N then (                                                                 (* M vy_map *)
        let (s1, rhs) := pop1 s in let (s2, lhs) := pop1 s1 in
        match lhs, rhs with
        | _, VFun c =>
            xdo items <- of_opt (iter_range cf lhs);
            xdo (ys, s3) <- map_app c (fun x => [x]) items s2; XOk (push (VList ys) s3)
        | VFun c, _ =>
            xdo items <- of_opt (iter_range cf rhs);
            xdo (ys, s3) <- map_app c (fun x => [x]) items s2; XOk (push (VList ys) s3)
        | _, _ =>
            xdo items <- of_opt (iter_range cf rhs);
            XOk (push (VList (map (fun x => VList [lhs; x]) items)) s2)
        end)
    else
    if (k =? 70)%N then (                                                                 (* F vy_filter *)
        let (s1, rhs) := pop1 s in let (s2, lhs) := pop1 s1 in
        match lhs, rhs with
        | VFun c, _ =>
            xdo items <- of_opt (iter_range cf rhs);
            xdo (ys, s3) <- filter_app c items s2; XOk (push (VList ys) s3)
        | _, VFun c =>
            xdo items <- of_opt (iter_range cf lhs);
            xdo (ys, s3) <- filter_app c items s2; XOk (push (VList ys) s3)
        | _, _ => XErr EStuck
        end)
    else
    if (k =? 7777)%N then (                                                               (* ṡ sort_by *)
        let (s1, rhs) := pop1 s in let (s2, lhs) := pop1 s1 in
        match lhs, rhs with
        | VFun c, _ =>
            xdo items <- of_opt (iter_digits rhs);
            xdo (ks, s3) <- key_app c items s2; XOk (push (VList (map snd (sort_pairs ks))) s3)
        | _, VFun c =>
            xdo items <- of_opt (iter_digits lhs);
            xdo (ks, s3) <- key_app c items s2; XOk (push (VList (map snd (sort_pairs ks))) s3)
        | _, _ => XErr EStuck
        end)
    else
    if (k =? 8224)%N then (                                                               (* † function_call *)
        let (s1, top) := pop1 s in
        match top with
        | VFun c => callstk c s1
        | VList _ => xdo r <- of_opt (vec1 not_s top); XOk (push r s1)
        | _ => XErr EStuck                                       (* a number: prime factors; a string: exec as Python *)
        end)
    else
    XErr ENotCore.

  Definition call_keys : str := [77; 70; 7777; 8224]%N.
  Definition elem_sem (k : N) (s : state) : xres state :=
    if mem k call_keys then elem_call k s else elem_pure k s.

  (* ---- modifier bodies (the `modifiers` dict of elements.py) ------------------------------------------ *)
  (* wrapify(stack, k): the popped items; arguments[::-1] puts the deepest first *)
  Definition mod1_sem (m : N) (fA : closure) (s : state) : xres state :=
    let k := arity_nat (c_arity fA) in
    if (m =? 118)%N then                                                      (* v vectorise(..., explicit=True) *)
        match k with
        | 1%nat =>
            let (s1, x) := pop1 s in
            xdo items <- of_opt (iter_range cf x);
            xdo (ys, s2) <- map_app fA (fun y => [y]) items s1; XOk (push (VList ys) s2)
        | 2%nat =>
            let (s1, rhs) := pop1 s in let (s2, lhs) := pop1 s1 in
            match lhs, rhs with
            | _, VFun _ | VFun _, _ => XErr EStuck
            | VList l, _ => xdo (ys, s3) <- map_app fA (fun y => [y; rhs]) l s2; XOk (push (VList ys) s3)
            | _, VList r => xdo (ys, s3) <- map_app fA (fun y => [lhs; y]) r s2; XOk (push (VList ys) s3)
            | _, _ =>                                                (* two scalars: over the digits / characters of lhs *)
                xdo items <- of_opt (iter_digits lhs);
                xdo (ys, s3) <- map_app fA (fun y => [y; rhs]) items s2; XOk (push (VList ys) s3)
            end
        | _ => XErr EStuck
        end
    else if (m =? 38)%N then                                                  (* & apply to register *)
        let s0 := push (reg s) s in
        let (s1, popped) := popn k s0 in
        let arg := match popped with [x] => x | _ => VList popped end in
        xdo (r, s2) <- app fA [arg] s1; XOk (set_reg s2 r)
    else if (m =? 126)%N then                                                 (* ~ *)
        match k with
        | O => XOk s
        | 1%nat =>
            let (s1, x) := pop1 s in
            xdo items <- of_opt (iter_range cf x);
            xdo (ys, s2) <- filter_app fA items s1; XOk (push (VList ys) s2)
        | _ =>
            let (s1, popped) := popn k s in
            let s2 := set_stk s1 (popped ++ stk s1) in                        (* ctx.retain_popped *)
            xdo (r, s3) <- app fA (rev popped) s2; XOk (push r s3)
        end
    else if (m =? 223)%N then                                                 (* ß conditional execute *)
        let (s1, c) := pop1 s in
        xdo b <- of_opt (truthy c);
        if b then callstk fA s1 else XOk s1
    else if (m =? 402)%N then                                                 (* ƒ reduce *)
        let f2 := mkClo (c_named fA) (c_name fA) (c_params fA) (c_arity fA) (Some 2) (c_body fA) (c_env fA) in
        let (s1, x) := pop1 s in
        xdo items <- of_opt (iter_digits x);
        match items with
        | [] => XOk (push (VInt 0) s1)
        | y :: r => xdo (res, s2) <- fold_app f2 y r s1; XOk (push res s2)
        end
    else if (m =? 598)%N then                                                 (* ɖ scan *)
        let f2 := mkClo (c_named fA) (c_name fA) (c_params fA) (c_arity fA) (Some 2) (c_body fA) (c_env fA) in
        let (s1, x) := pop1 s in
        xdo items <- of_opt (iter_digits x);
        match items with
        | [] => XOk (push (VList []) s1)
        | y :: r => xdo (res, s2) <- scan_app f2 y r s1; XOk (push (VList res) s2)
        end
    else XErr ENotCore.

  Definition mod2_sem (m : N) (fA fB : closure) (s : state) : xres state :=
    let kA := arity_nat (c_arity fA) in
    let kB := arity_nat (c_arity fB) in
    (* stack_copy = list(deep_copy(stack)); arguments_A from the copy, arguments_B from the stack *)
    let (s1, pa) := popn kA s in
    let (s2, pb) := popn kB (set_stk s1 (stk s)) in
    xdo (ra, s3) <- app fA (rev pa) s2;
    xdo (rb, s4) <- app fB (rev pb) s3;
    if (m =? 8332)%N then XOk (push rb (push ra s4))                          (* ₌ *)
    else if (m =? 8333)%N then XOk (push (VList [ra; rb]) s4)                 (* ₍ *)
    else XErr ENotCore.
End WithCalls.

Definition mod1_keys : str := [118; 38; 126; 223; 402; 598]%N.
Definition mod2_keys : str := [8332; 8333]%N.

(* ---- literals, names ------------------------------------------------------------------------------------ *)
Definition number_value (v : str) : option Z :=
  if all_ascii_digits v then Some (Z.of_N (dec_value v 0%N)) else None.

(* string literals: what `stack.append("...")` / `stack.append('c')` pushes.  In the core: printable
   ASCII and newline, no backslash (escape pairs) and nothing the dictionary compression reads (its
   alphabet is non-ASCII), so that the re-escaping of transpile_token and Python's reading of the
   literal are the identity; a character literal is that character; a compressed string is its
   base-27 expansion (Transpile.uncompress_str) *)
Definition plain_char (c : N) : bool := (((32 <=? c) && (c <=? 126) && negb (N.eqb c 92) && negb (N.eqb c 96)) || N.eqb c 10)%N.
Definition string_value (t : token) : option str :=
  match tk t with
  | KString => if forallb plain_char (tv t) then Some (tv t) else None
  | KCharacter => match tv t with [c] => if (((32 <=? c) && (c <=? 126)) || N.eqb c 10)%N then Some [c] else None | _ => None end
  | KCompString =>
      match uncompress_str (tv t) with
      | Some s => match py_repr_plain s with Some _ => Some s | None => None end
      | None => None
      end
  | _ => None
  end.

(* the Python identifier behind a variable / function name is VAR_<name>: one namespace *)
Definition name_ok (n : str) : bool :=
  match n with
  | [] => false
  | c :: _ => negb (N.eqb c 95) && forallb (fun c => mem c ascii_letters || N.eqb c 95) n
  end.

Fixpoint lookup (n : str) (env : list (str * value)) : option value :=
  match env with
  | [] => None
  | (k, v) :: r => if str_eqb k n then Some v else lookup n r
  end.
Fixpoint assign (n : str) (v : value) (env : list (str * value)) : list (str * value) :=
  match env with
  | [] => [(n, v)]
  | (k, w) :: r => if str_eqb k n then (k, v) :: r else (k, w) :: assign n v r
  end.

(* ---- Python scoping of the VAR_<name>s -----------------------------------------------------------------------
   A name that is assigned anywhere in the body of a def (variable set, named for-loop variable, a
   function definition, a named parameter) is LOCAL to that def -- decided statically, nested defs
   not looked into.  A read sees the innermost enclosing def that has the name as a local (its cell,
   shared with every closure defined there; an unassigned cell is an error) and otherwise the module
   global at the time of the read. *)
Fixpoint assigned (x : struct) : list str :=
  match x with
  | SGeneric t => match tk t with KVarSet => [tv t] | _ => [] end
  | SIf bs => flat_map (flat_map assigned) bs
  | SFor names b => match names with n :: _ => [keep re_keep_for n] | [] => [] end ++ flat_map assigned b
  | SWhile c b => flat_map assigned c ++ flat_map assigned b
  | SFnDef n _ _ => [keep re_keep_fndef n]
  | _ => []
  end.
Definition assigned_list (l : list struct) : list str := flat_map assigned l.

Fixpoint cell_of (n : str) (fr : list (str * option value)) : option (option value) :=
  match fr with
  | [] => None
  | (k, c) :: r => if str_eqb k n then Some c else cell_of n r
  end.
Fixpoint set_cell (n : str) (v : value) (fr : list (str * option value)) : list (str * option value) :=
  match fr with
  | [] => []
  | (k, c) :: r => if str_eqb k n then (k, Some v) :: r else (k, c) :: set_cell n v r
  end.
Fixpoint upd_nth {A} (i : nat) (f : A -> A) (l : list A) : list A :=
  match l, i with
  | [], _ => []
  | x :: r, O => f x :: r
  | x :: r, S j => x :: upd_nth j f r
  end.

(* Some (Some v): bound in a def; Some None: local to a def but not assigned yet; None: not a local of any
   enclosing def *)
Fixpoint lookup_chain (n : str) (hp : list (list (str * option value))) (chain : list nat) : option (option value) :=
  match chain with
  | [] => None
  | id :: r =>
      match nth_error hp id with
      | Some fr => match cell_of n fr with Some c => Some c | None => lookup_chain n hp r end
      | None => lookup_chain n hp r
      end
  end.

(* stack.append(VAR_<n>) / VAR_<n>(...): None = NameError / UnboundLocalError *)
Definition lookup_var (n : str) (s : state) : option value :=
  match lookup_chain n (heap s) (cur s) with
  | Some c => c
  | None => lookup n (vars s)
  end.

(* VAR_<n> = v in the running code: a local of the running def, a global at module level *)
Definition assign_var (n : str) (v : value) (s : state) : state :=
  match cur s with
  | [] => set_vars s (assign n v (vars s))
  | id :: _ =>
      match nth_error (heap s) id with
      | Some fr =>
          match cell_of n fr with
          | Some _ => set_heap s (upd_nth id (set_cell n v) (heap s))
          | None => set_vars s (assign n v (vars s))
          end
      | None => set_vars s (assign n v (vars s))
      end
  end.

(* entering a def whose locals are `names`, defined where `env` was visible; a def without locals needs
   no frame of its own *)
Definition enter_def (names : list str) (env : list nat) (s : state) : state :=
  match names with
  | [] => set_cur s env
  | _ => set_cur (set_heap s (heap s ++ [map (fun n => (n, None)) names])) (length (heap s) :: env)
  end.

(* the parameters of a named function: a decimal count pops that many items onto the
   function's stack; a name pops one item into the local VAR_<name>; "*" pops the count *)
Definition param_of (p : str) : option param :=
  if all_ascii_digits p then Some (PNum (N.to_nat (dec_value p 0%N)))
  else if str_eqb p [42%N] then Some PStar
  else if name_ok (keep re_keep_fnparam p) then Some (PName (keep re_keep_fnparam p))
  else None.

(* ctx.default_arity = 1 (no flag 2 / 3) *)
Definition lambda_arity (a : option Z) : Z := match a with Some z => z | None => 1 end.
Definition mk_lambda (a : option Z) (body : list struct) (env : list nat) : closure :=
  mkClo false [] [] (lambda_arity a) None body env.

(* transpile.lambda_wrap: the function a modifier operand denotes *)
Definition operand_closure (x : struct) (env : list nat) : closure :=
  match x with
  | SLambda a body => mk_lambda a body env
  | _ => mk_lambda (fst (lambda_wrap1 x)) [x] env
  end.

(* the value a lambda pushes as context value: the argument, or the list of arguments *)
Definition context_of (args : list value) : value := match args with [x] => x | _ => VList args end.

(* which arity a lambda uses: `if arity != -1 ... elif 'stored_arity' in dir(self) ... else` *)
Definition select_arity (c : closure) (given : option nat) : nat :=
  match given with
  | Some n => n
  | None => match c_stored c with Some z => arity_nat z | None => arity_nat (c_arity c) end
  end.

(* ---- the program as a whole: flags, start-up, implicit output (main.execute_vyxal) ------------------------ *)
Inductive flag := FlNone | FlO | Flo | Flj | Fls | FlW | FlH | FlM | Flm.

Definition cfg_of (f : flag) : cfg :=
  match f with
  | FlM => mkCfg 0 1
  | Flm => mkCfg 1 0
  | _ => mkCfg 1 1
  end.

Definition init_state (f : flag) (inputs : list value) : state :=
  mkSt (match f with FlH => [VInt 100] | _ => [] end) [VInt 0] (inputs, O) [] [] 2 (VInt 0) [] [] [] None [] false.

(* vy_str(x) for the items of join *)
Definition str_of (v : value) : option str := match v with VStr t => Some t | _ => repr v end.

(* `output` after the flag step: a value, or a text (flags j W build a string); None = outside
   the domain.  The step runs whether or not anything is printed afterwards. *)
Inductive outv := OVal (v : value) | OText (t : str).

Definition flag_step (f : flag) (originally_empty : bool) (output : value) (rest : list value) : option outv :=
  match f with
  | Flj =>                                                  (* join(output, "\n") *)
      match output with
      | VInt z => Some (OText (join_with [10%N] (map (fun c => [c]) (Z_to_dec z))))
      | VStr t => Some (OText (join_with [10%N] (map (fun c => [c]) t)))
      | VList l => option_map (fun parts => OText (join_with [10%N] parts)) (mapM str_of l)
      | VFun _ => None
      end
  | Fls =>                                                  (* vy_sum(output): the digits of a number; a negative
                                                               number sums to the string of its own digits *)
      match output with
      | VInt z => if z <? 0 then Some (OText (Z_to_dec z)) else option_map OVal (sum_values (digit_vals z))
      | VStr t => option_map OVal (sum_values (chars_of t))
      | VList l => option_map OVal (sum_values l)
      | VFun _ => None
      end
  | FlW =>                                                  (* vy_str(stack) with the output put back *)
      option_map OText (if originally_empty then repr (VList []) else repr (VList (rev (output :: rest))))
  | _ => Some (OVal output)
  end.

Definition out_text (o : outv) : option str :=
  match o with OVal v => print_text v | OText t => Some t end.

(* the implicit output.  A function on top of the stack is printed by calling it on the main
   stack (vy_print: lhs(ctx.stacks[-1], lhs, ctx=ctx)[-1]); lambdas only *)
Definition finish (app : app_t) (f : flag) (s : state) : xres state :=
  let originally_empty := match stk s with [] => true | _ => false end in
  let (s1, output) := pop1 s in
  let s2 := match f with FlW => if originally_empty then s1 else push output s1 | _ => s1 end in
  xdo o <- of_opt (flag_step f originally_empty output (stk s1));
  let wanted := match f with
                | Flo => true
                | FlO => false
                | _ => negb (printed s1)
                end in
  if wanted then
    match o with
    | OVal (VFun c) =>
        if c_named c then XErr EStuck
        else
          let (s3, popped) := popn (select_arity c None) s2 in
          xdo (r, s4) <- app c popped s3;
          vy_print r s4
    | _ =>
        match out_text o with
        | Some t => XOk (emit s2 (t ++ [10%N]))
        | None => XErr EStuck
        end
    end
  else XOk s2.

(* ---- the core grammar: exactly what C01 quantifies over -----------------------------------------------------
   indef = the code stands inside a Python `def` (lambda body, function body, list item,
   modifier operand); it only matters for `x` at the top level (prints the stack).  Variable
   assignments, named loop variables and function definitions may stand anywhere: inside a def
   they create a local of that def (see `assigned`), which the evaluators model with frames and
   closure cells.  Outside the core and listed in the report: compressed numbers, string
   literals with escapes or non-ASCII text, the ghost variable and `_` names (attributes of
   ctx, not Python names), triadic modifiers, elements outside `core_keys`, early exits (X x)
   where the emitted line is not what the documents say (see break_core / recurse_core). *)
Definition token_core (indef : bool) (t : token) : bool :=
  match tk t with
  | KNumber => all_ascii_digits (tv t)
  | KGeneral => match tv t with [k] => mem k core_keys | _ => false end
  | KVarGet => name_ok (tv t)
  | KVarSet => name_ok (tv t)
  | KString | KCharacter | KCompString => match string_value t with Some _ => true | None => false end
  | _ => false
  end.

Definition arity_ok (a : option Z) : bool := match a with None => true | Some z => 0 <=? z end.
Definition param_ok (p : str) : bool := match param_of p with Some _ => true | None => false end.

(* where an early exit stands: il = the innermost enclosing loop reached through ifs only
   (none / for / while), lam = directly (through ifs) in the body of a plain lambda *)
Inductive lk := LNone | LFor | LWhile.
Definition in_loop (il : lk) : bool := match il with LNone => false | _ => true end.
Definition in_for (il : lk) : bool := match il with LFor => true | _ => false end.

(* X by the parent class the parser recorded (Transpile.break_text): break in a loop, early
   return in a plain lambda, nothing at top level.  In a map / filter / sort lambda, a named
   function, a list item or after a modifier the emitted line is `pass` although the documents
   say "break out of the current loop or function": outside the core (reported). *)
Definition break_core (il : lk) (lam : bool) (p : option pkind) : bool :=
  match p with
  | Some PFor | Some PWhile => in_loop il
  | Some PLambda => lam
  | None | Some PIf => true
  | _ => false
  end.

(* x (Transpile.recurse_text): continue in a for loop, recursion in a plain lambda, the
   enclosing function under a modifier, print the stack at top level.  Outside the core: x in
   a while body (`continue` re-tests the stale condition value), in a top-level if (`pass`), in
   a named function / map / filter / sort lambda / list item (prints the stack instead of
   recursing). *)
Definition recurse_core (indef : bool) (il : lk) (lam : bool) (p : option pkind) : bool :=
  match p with
  | Some PFor => in_for il
  | Some PLambda => lam
  | Some PMonadic | Some PDyadic | Some PTriadic => true
  | None => negb indef
  | _ => false
  end.

Fixpoint core_ok (indef : bool) (il : lk) (lam : bool) (x : struct) : bool :=
  match x with
  | SGeneric t => token_core indef t
  | SBreak p => break_core il lam p
  | SRecurse p => recurse_core indef il lam p
  | SIf bs => forallb (forallb (core_ok indef il lam)) bs
  | SFor names b =>
      match names with [] => true | n :: _ => name_ok (keep re_keep_for n) end
      && forallb (core_ok indef LFor false) b
  | SWhile c b => forallb (core_ok indef LNone false) c && forallb (core_ok indef LWhile false) b
  | SFnCall n => name_ok (keep re_keep_fncall n)
  | SFnDef n ps b =>
      name_ok (keep re_keep_fndef n) && forallb param_ok ps && forallb (core_ok true LNone false) b
  | SLambda a b => arity_ok a && forallb (core_ok true LNone true) b
  | SLamOp _ b => forallb (core_ok true LNone false) b
  | SList its => forallb (forallb (core_ok true LNone false)) its
  | SMod1 m a => mem m mod1_keys && core_ok true LNone true a
  | SMod2 m a b => mem m mod2_keys && core_ok true LNone true a && core_ok true LNone true b
  | SMod3 _ _ _ _ => false
  end.
Definition core_ok_list (indef : bool) (il : lk) (lam : bool) (l : list struct) : bool := forallb (core_ok indef il lam) l.

(* the body of a function value may be entered: a lambda's own early exits are allowed in it *)
Definition body_ok (c : closure) : bool := core_ok_list true LNone (negb (c_named c)) (c_body c).

(* the parser marks EVERYTHING after a modifier with the modifier as parent; x then calls
   ctx.function_stack[-2].  That is "the current function" only when the x stands inside the
   operand itself (the operand is wrapped in a lambda of its own, so [-2] is the function the
   modifier is used in); after the operand, in the rest of the body, it would be the caller's
   caller: outside the core.  opw = directly (through ifs) inside a wrapped operand. *)
Fixpoint recurse_ok (opw : bool) (x : struct) : bool :=
  match x with
  | SRecurse (Some PMonadic) | SRecurse (Some PDyadic) | SRecurse (Some PTriadic) => opw
  | SGeneric _ | SFnCall _ | SBreak _ | SRecurse _ => true
  | SIf bs => forallb (forallb (recurse_ok opw)) bs
  | SFor _ b => forallb (recurse_ok false) b
  | SWhile c b => forallb (recurse_ok false) c && forallb (recurse_ok false) b
  | SFnDef _ _ b => forallb (recurse_ok false) b
  | SLambda _ b => forallb (recurse_ok false) b
  | SLamOp _ b => forallb (recurse_ok false) b
  | SList its => forallb (forallb (recurse_ok false)) its
  | SMod1 _ a => recurse_ok true a
  | SMod2 _ a b => recurse_ok true a && recurse_ok true b
  | SMod3 _ a b c => recurse_ok true a && recurse_ok true b && recurse_ok true c
  end.

(* what C01 quantifies over: whole programs *)
Definition core_program (p : list struct) : bool :=
  core_ok_list false LNone false p && forallb (recurse_ok false) p.

(* the parameters of a function definition *)
Definition params_of (ps : list str) : option (list param) := mapM param_of ps.
Definition mk_named (name : str) (ps : list param) (body : list struct) (env : list nat) : closure :=
  mkClo true name ps 0 None body env.
Definition param_names (ps : list param) : list str :=
  flat_map (fun p => match p with PName x => [x] | _ => [] end) ps.
(* the parameter lines VAR_<x> = ..., in order, in the function's own frame *)
Definition bind_params (l : list (str * value)) (s : state) : state :=
  fold_left (fun st kv => assign_var (fst kv) (snd kv) st) l s.
Definition of_name {A} (o : option A) : xres A := match o with Some x => XOk x | None => XErr EName end.
(* the locals of a function value's def: its named parameters and what its body assigns *)
Definition decl_of (c : closure) : list str := param_names (c_params c) ++ assigned_list (c_body c).

(* ---- how a statement ends: normally, or by an early exit (X / x) -------------------------------------------
   SBrk leaves the innermost loop, SCont goes to its next iteration, SRet v leaves the running
   lambda with the value v *)
Inductive sig := SNorm | SBrk | SCont | SRet (v : value).
Definition fres := xres (sig * state).
Definition norm (r : xres state) : fres := xdo s <- r; XOk (SNorm, s).

(* running a statement list: the first error or early exit ends it *)
Fixpoint seq_run (step : struct -> state -> fres) (p : list struct) (s : state) : fres :=
  match p with
  | [] => XOk (SNorm, s)
  | x :: r =>
      xdo (g, s1) <- step x s;
      match g with SNorm => seq_run step r s1 | _ => XOk (g, s1) end
  end.

(* ---- comparison with observations of the implementation (used by the correspondence only) ------------------
   a function value is observed only as "a function" *)
Fixpoint veq (a b : value) {struct a} : bool :=
  match a, b with
  | VInt x, VInt y => x =? y
  | VStr s, VStr t => str_eqb s t
  | VFun _, VFun _ => true
  | VList la, VList lb =>
      (fix go (la lb : list value) {struct la} : bool :=
         match la, lb with
         | [], [] => true
         | x :: ra, y :: rb => veq x y && go ra rb
         | _, _ => false
         end) la lb
  | _, _ => false
  end.
Fixpoint veq_list (a b : list value) : bool :=
  match a, b with
  | [], [] => true
  | x :: ra, y :: rb => veq x y && veq_list ra rb
  | _, _ => false
  end.
Definition a_fun : value := VFun (mkClo false [] [] 0 None [] []).

(* outcome code of a run against an observation (error code, final stack bottom first, stdout):
   0 agree; 1 differ; 7 differ in back-quotes only; 2 EStuck; 3 out of fuel; 4 ENotCore; error codes of the observation:
   0 none, 1 NameError, 2 IndexError, 9 any other exception *)
Definition compare_run (r : xres state) (e : nat) (st : list value) (o : str) : nat :=
  match r with
  | XOk s =>
      if Nat.eqb e 0 && veq_list (rev (stk s)) st then
        if str_eqb (out s) o then 0%nat
        else if str_eqb (filter (fun c => negb (N.eqb c 96)) (out s)) (filter (fun c => negb (N.eqb c 96)) o)
             then 7%nat            (* the same text up to back-quotes: LazyList.output prints cached string items unquoted *)
             else 1%nat
      else 1%nat
  | XErr EStuck => 2%nat
  | XFuel => 3%nat
  | XErr ENotCore => 4%nat
  | XErr EName => if Nat.eqb e 1 then 0%nat else 1%nat
  | XErr EIndex => if Nat.eqb e 2 then 0%nat else 1%nat
  end.
