(* Model of vyxal/encoding.py: vyxal_to_utf8 / utf8_to_vyxal over the generated code
   page, and the table predicates of property C20.  No proofs here. *)
From Coq Require Import List NArith ZArith Bool.
From Vy Require Import Model.Base Model.Lexer Model.Parser Gen.Codepage Gen.ParserConsts Gen.Elements Gen.Yaml Gen.Known.
Import ListNotations.
Open Scope N_scope.

Fixpoint mapM {A B} (f : A -> option B) (l : list A) : option (list B) :=
  match l with
  | [] => Some []
  | x :: r => match f x, mapM f r with Some y, Some ys => Some (y :: ys) | _, _ => None end
  end.

(* vyxal_to_utf8: codepage[b] for each byte b; utf8_to_vyxal: codepage.index(c)
   (Python raises ValueError for a character outside the code page: None) *)
Definition byte_to_char (cp : str) (b : N) : option N := nth_error cp (N.to_nat b).
Definition char_to_byte (cp : str) (c : N) : option N := find_index c cp.
Definition to_utf8_with (cp : str) (bs : list N) : option str := mapM (byte_to_char cp) bs.
Definition to_vyxal_with (cp : str) (s : str) : option (list N) := mapM (char_to_byte cp) s.
Definition to_utf8 := to_utf8_with codepage.
Definition to_vyxal := to_vyxal_with codepage.

(* ---- table predicates ---------------------------------------------------- *)
Definition all_in (s : str) (alphabet : str) : bool := forallb (fun c => mem c alphabet) s.

Definition one_general_token (k : str) : bool := tokens_eqb (tokenise k) [Tok KGeneral k].

Definition all_modifiers : str := monadic_modifiers ++ dyadic_modifiers ++ triadic_modifiers.

(* a table key is shadowed when the parser never looks it up: structure syntax,
   modifiers, break/recurse, and the ignored tokens "|" and " " *)
Definition syntax_chars : str :=
  openers ++ closers ++ all_modifiers ++ [break_character; recurse_character; 124; 32].
Definition shadowed (k : str) : bool :=
  match k with [c] => mem c syntax_chars | _ => false end.

Definition element_keys : list str := map e_key elements.

Definition doc_arity_of (k : str) : list Z :=
  flat_map (fun d => if negb (d_modifier d) && str_eqb (d_key d) k
                     then match d_arity d with Some a => [a] | None => [] end else [])
           documented.

Definition key_ok (e : elem) : bool :=
  let k := e_key e in
  all_in k codepage
  && one_general_token k
  && (negb (shadowed k) || mem_str k c20_known_shadowed)
  && (Nat.eqb (count_str k element_keys) 1 || mem_str k c20_known_dup)
  && (forallb (Z.eqb (e_arity e)) (doc_arity_of k) || mem_str k c20_known_arity).

Definition syntax_key_ok (c : N) : bool := mem c codepage && one_general_token [c].

(* characters the lexer itself consumes: a documented entry for one of them is
   documentation of syntax, not of a table element *)
Definition lexer_chars : str :=
  lex_escape ++ lex_string_delims ++ lex_number_chars ++ lex_twochar ++ lex_var
  ++ lex_comment ++ lex_digraph ++ lex_cpnum.

Definition doc_is_syntax (k : str) : bool :=
  match k with
  | [c] => mem c syntax_chars || mem c lexer_chars || N.eqb c 9252 (* the yaml's picture of newline *)
  | _ => false
  end.

Definition doc_ok (d : docentry) : bool :=
  if d_modifier d then
    match d_key d with [c] => mem c all_modifiers && mem_str [c] (map m_key modifiers) | _ => false end
  else mem_str (d_key d) element_keys || doc_is_syntax (d_key d) || mem_str (d_key d) c20_known_missing.

(* modifiers of the table are modifiers of the parser; modifiers of the parser are
   either lambda shorthands handled in parse.py or have a template *)
Definition lambda_shorthands : str := [8317; 8225; 8812].  (* ⁽ ‡ ≬ *)
Definition modifier_tables_ok : bool :=
  forallb (fun m => match m_key m with [c] => mem c all_modifiers | _ => false end) modifiers
  && forallb (fun c => mem c lambda_shorthands || mem_str [c] (map m_key modifiers)) all_modifiers.

Definition tables_ok : bool :=
  forallb key_ok elements
  && forallb syntax_key_ok (openers ++ closers ++ all_modifiers ++ [break_character; recurse_character])
  && forallb doc_ok documented
  && modifier_tables_ok.
