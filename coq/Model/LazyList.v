(* Model of vyxal/LazyList.py (class LazyList over a FINITE source of integers) and of
   vyxal/helpers.py deep_copy.  No proofs here.

   A lazy list object is a cell of a small heap.  A cell built by LazyList(list) is
     Root generated rest          rest = what raw_object (a list iterator) has not yet yielded.
   A cell built by deep_copy(value) = LazyList(itertools.tee(value)[-1]) is
     View generated parent gpos done
   because tee calls iter(value), i.e. value.__iter__(), a generator g over the ORIGINAL:
       yield from self.generated ; i = len(self.generated)
       while self.has_ind(i): yield self[i] ; i += 1
   g is not started by deep_copy.  Its k-th yield is  parent.generated[k]  while k is below
   len(parent.generated) (live list iterator: no pull), and from the moment k reaches that
   length (the list iterator is exhausted exactly when k = len, as it has yielded k items and
   the list only grows) it is  parent.has_ind(k) ? parent[k] : stop.  has_ind(k) and self[k]
   do not pull when k < len(generated) and 0 <= k, so both phases are the single rule
       k-th yield of g  =  if parent.has_ind(k) then parent[k] else StopIteration (g is finished),
   gpos = k = number of items g has yielded, done = g has finished.
   raw_object of the copy is the second tee object; the first one is dropped at once and no
   other reader of g is ever created (reversed no longer calls tee), so the tee buffer is
   always empty and next(raw_object) is next(g).  So the copy is a lazy view of the
   original; nothing is copied.

   Each method is transcribed statement by statement.  `None` is the explicit
   out-of-fuel / dangling-cell result; the theorems exclude it. *)
From Coq Require Import List ZArith Bool Arith.
Import ListNotations.
Open Scope Z_scope.

(* ---- canonical results of observations ------------------------------------------ *)
Inductive out :=
| OZ (z : Z) | OL (l : list Z) | OB (b : bool)
| OStop          (* StopIteration *)
| OIndexError    (* list index out of range *)
| OValueError    (* slice step cannot be zero *)
| OUnit          (* nothing observed (deep_copy; next when compared with the plain list) *)
| OFuel.         (* model ran out of fuel: excluded by the theorems *)

Definition zlen (l : list Z) : Z := Z.of_nat (length l).
Definition znth (l : list Z) (i : Z) : Z := nth (Z.to_nat i) l 0.
Definition odflt (x : option Z) : Z := match x with Some v => v | None => 0 end.   (* `x or 0` *)

Fixpoint list_eqb (a b : list Z) : bool :=
  match a, b with
  | [], [] => true
  | x :: a', y :: b' => Z.eqb x y && list_eqb a' b'
  | _, _ => false
  end.
Fixpoint zcount (x : Z) (l : list Z) : Z :=
  match l with [] => 0 | y :: r => (if Z.eqb y x then 1 else 0) + zcount x r end.

(* ---- the plain Python list: the specification side -------------------------------- *)
(* l[i] for i < 0 *)
Definition py_neg_index (l : list Z) (i : Z) : out :=
  if 0 <=? zlen l + i then OZ (znth l (zlen l + i)) else OIndexError.

(* wrap-around of LazyList.__getitem__ for i >= 0: position % len, 0 on the empty list *)
Definition wrap_index (l : list Z) (i : Z) : Z :=
  match l with [] => 0 | _ => znth l (i mod zlen l) end.

(* range(i, hi, s) for s > 0 and range(i, hi, s) for s < 0; fuel |hi - i| always suffices *)
Fixpoint range_up (fuel : nat) (i hi s : Z) : list Z :=
  match fuel with O => [] | S f => if i <? hi then i :: range_up f (i + s) hi s else [] end.
Fixpoint range_down (fuel : nat) (i lo s : Z) : list Z :=
  match fuel with O => [] | S f => if lo <? i then i :: range_down f (i + s) lo s else [] end.

(* slice.indices(n): PySlice_AdjustIndices *)
Definition slice_bound (n lo hi dflt : Z) (x : option Z) : Z :=
  match x with
  | None => dflt
  | Some v => if v <? 0 then Z.max lo (n + v) else Z.min hi v
  end.

(* l[start:stop:step] *)
Definition py_slice (l : list Z) (start stop step : option Z) : out :=
  let n := zlen l in
  let s := match step with None => 1 | Some s => s end in
  if s =? 0 then OValueError
  else if 0 <? s then
    let lo := slice_bound n 0 n 0 start in
    let hi := slice_bound n 0 n n stop in
    OL (map (znth l) (range_up (Z.to_nat (hi - lo)) lo hi s))
  else
    let hi := slice_bound n (-1) (n - 1) (n - 1) start in
    let lo := slice_bound n (-1) (n - 1) (-1) stop in
    OL (map (znth l) (range_down (Z.to_nat (hi - lo)) hi lo s)).

(* ---- methods of one LazyList, over an abstract __next__ --------------------------- *)
Section Methods.
  Variable St : Type.                               (* everything mutable *)
  Variable nxt : St -> option (option Z * St).       (* __next__: Some (None, _) = StopIteration *)
  Variable gen : St -> list Z.                      (* self.generated *)

  (* has_ind:  if ind < len(self.generated): return 0 <= ind
               for _ in range(ind - len(self.generated) + 1):
                   try: next(self)  except StopIteration: return False
               return True *)
  Fixpoint pull_n (k : nat) (s : St) : option (bool * St) :=
    match k with
    | O => Some (true, s)
    | S k' =>
      match nxt s with
      | None => None
      | Some (None, s') => Some (false, s')
      | Some (Some _, s') => pull_n k' s'
      end
    end.
  Definition has_ind (ind : Z) (s : St) : option (bool * St) :=
    if ind <? zlen (gen s) then Some (0 <=? ind, s)
    else pull_n (Z.to_nat (ind - zlen (gen s) + 1)) s.

  (* __getitem__(position), 0 <= position:
       if position < len(self.generated): return self.generated[position]
       while len(self.generated) < position + 1:
           try: next(self)  except StopIteration: break
       if self.generated: return self.generated[position % len(self.generated)]
       else: return 0
     the loop runs at most position + 1 - len(generated) times: that is its fuel *)
  Fixpoint fill (k : nat) (pos : Z) (s : St) : option St :=
    if zlen (gen s) <? pos + 1 then
      match k with
      | O => None
      | S k' =>
        match nxt s with
        | None => None
        | Some (None, s') => Some s'
        | Some (Some _, s') => fill k' pos s'
        end
      end
    else Some s.
  Definition index_nonneg (pos : Z) (s : St) : option (Z * St) :=
    if pos <? zlen (gen s) then Some (znth (gen s) pos, s)
    else match fill (Z.to_nat (pos + 1 - zlen (gen s))) pos s with
         | None => None
         | Some s' =>
           match gen s' with
           | [] => Some (0, s')
           | _ => Some (znth (gen s') (pos mod zlen (gen s')), s')
           end
         end.

  (* listify:  temp = self.generated[::]
               while True: try: temp.append(self.__next__())  except StopIteration: break
               return temp *)
  Fixpoint drain (fuel : nat) (acc : list Z) (s : St) : option (list Z * St) :=
    match fuel with
    | O => None
    | S f =>
      match nxt s with
      | None => None
      | Some (None, s') => Some (acc, s')
      | Some (Some v, s') => drain f (acc ++ [v]) s'
      end
    end.
  Definition listify (fuel : nat) (s : St) : option (list Z * St) := drain fuel (gen s) s.

  (* __len__:  while True: try: next(self)  except StopIteration: break
               return len(self.generated) *)
  Definition len (fuel : nat) (s : St) : option (Z * St) :=
    match drain fuel [] s with
    | None => None
    | Some (_, s') => Some (zlen (gen s'), s')
    end.

  (* __getitem__(position), position < 0:  self.listify(); return self.generated[position] *)
  Definition index_neg (fuel : nat) (pos : Z) (s : St) : option (out * St) :=
    match listify fuel s with
    | None => None
    | Some (_, s') => Some (py_neg_index (gen s') pos, s')
    end.

  (* the loop shared by __iter__, the open slice and the bounded slice, forced at once:
       i = i0
       [for i in range(i0, stop, step):]  /  [while ...:]
           if not self.has_ind(i): break
           ret.append(self[i]) ; i += step
     here 0 <= i always, so self[i] is the non-negative branch of __getitem__ *)
  Fixpoint walk (fuel : nat) (i : Z) (stop : option Z) (step : Z) (acc : list Z) (s : St)
    : option (list Z * St) :=
    match fuel with
    | O => None
    | S f =>
      if match stop with Some e => e <=? i | None => false end then Some (acc, s)
      else match has_ind i s with
           | None => None
           | Some (false, s1) => Some (acc, s1)
           | Some (true, s1) =>
             match index_nonneg i s1 with
             | None => None
             | Some (v, s2) => walk f (i + step) stop step (acc ++ [v]) s2
             end
           end
    end.

  (* __iter__ forced at once: yield from self.generated; i = len(self.generated);
     while self.has_ind(i): yield self[i]; i += 1 *)
  Definition iterate (fuel : nat) (s : St) : option (list Z * St) :=
    walk fuel (zlen (gen s)) None 1 (gen s) s.

  (* __getitem__(slice):
       start, stop, step = position.start, position.stop, position.step or 1
       if step < 0 or (start or 0) < 0 or (stop or 0) < 0:
           return LazyList(self.listify()[position])          -- the ORIGINAL slice object
       if stop is None:  (generator)  i = start or 0; while self.has_ind(i): yield self[i]; i += step
       else: for i in range(start or 0, stop, step): if not self.has_ind(i): break; ret.append(self[i]) *)
  Definition getitem_slice (fuel : nat) (start stop step : option Z) (s : St) : option (out * St) :=
    let st := match step with None => 1 | Some v => if v =? 0 then 1 else v end in
    if (st <? 0) || (odflt start <? 0) || (odflt stop <? 0) then
      match listify fuel s with
      | None => None
      | Some (l, s') => Some (py_slice l start stop step, s')
      end
    else
      match walk fuel (odflt start) stop st [] s with
      | None => None
      | Some (l, s') => Some (OL l, s')
      end.

  (* __bool__:  return self.has_ind(0) *)
  Definition truth (s : St) : option (bool * St) := has_ind 0 s.

  (* __contains__, not infinite:  for temp in self: if temp == lhs: return 1
                                  return 0
     the generator of __iter__ is abandoned at the first hit *)
  Fixpoint contains_walk (fuel : nat) (i : Z) (x : Z) (s : St) : option (bool * St) :=
    match fuel with
    | O => None
    | S f =>
      match has_ind i s with
      | None => None
      | Some (false, s1) => Some (false, s1)
      | Some (true, s1) =>
        match index_nonneg i s1 with
        | None => None
        | Some (v, s2) => if v =? x then Some (true, s2) else contains_walk f (i + 1) x s2
        end
      end
    end.
  Definition contains (fuel : nat) (x : Z) (s : St) : option (bool * St) :=
    if existsb (fun v => v =? x) (gen s) then Some (true, s)
    else contains_walk fuel (zlen (gen s)) x s.

  (* __eq__ with a list:  return self.listify() == simplify(other)   (simplify is the
     identity on lists of ints) *)
  Definition eq_list (fuel : nat) (l : list Z) (s : St) : option (bool * St) :=
    match listify fuel s with
    | None => None
    | Some (m, s') => Some (list_eqb m l, s')
    end.

  (* count:  temp = self.listify(); return temp.count(other) *)
  Definition count (fuel : nat) (x : Z) (s : St) : option (Z * St) :=
    match listify fuel s with
    | None => None
    | Some (m, s') => Some (zcount x m, s')
    end.

  (* reversed (a generator function under @lazylist, forced at once):
       for item in self.listify()[::-1]: yield item *)
  Definition reversed (fuel : nat) (s : St) : option (list Z * St) :=
    match listify fuel s with
    | None => None
    | Some (m, s') => Some (rev m, s')
    end.
End Methods.

(* ---- the heap ------------------------------------------------------------------------ *)
Inductive cell :=
| Root (gen rest : list Z)
| View (gen : list Z) (parent gpos : nat) (done : bool).

(* newest cell first; cell number c is the one with c cells below it *)
Definition heap := list cell.

Fixpoint get (h : heap) (c : nat) : option cell :=
  match h with
  | [] => None
  | x :: tl => if Nat.eqb c (length tl) then Some x else get tl c
  end.
Fixpoint set (h : heap) (c : nat) (y : cell) : heap :=
  match h with
  | [] => []
  | x :: tl => if Nat.eqb c (length tl) then y :: tl else x :: set tl c y
  end.
Definition cell_gen (x : cell) : list Z :=
  match x with Root g _ => g | View g _ _ _ => g end.
Definition gen_of (c : nat) (h : heap) : list Z :=
  match get h c with Some x => cell_gen x | None => [] end.

(* __next__:  item = vyxalify(next(self.raw_object)); self.generated.append(item); return item
   `f` bounds the chain of parents (a parent is an older cell) *)
Fixpoint next (f : nat) (c : nat) (h : heap) : option (option Z * heap) :=
  match f with
  | O => None
  | S f' =>
    match get h c with
    | None => None
    | Some (Root g r) =>
      match r with
      | [] => Some (None, h)
      | v :: r' => Some (Some v, set h c (Root (g ++ [v]) r'))
      end
    | Some (View g p gpos done) =>
      (* next(g), g = parent.__iter__():  if done: StopIteration
         if not parent.has_ind(gpos): g returns;  item = parent[gpos]; gpos += 1 *)
      if done then Some (None, h)
      else match has_ind heap (next f' p) (gen_of p) (Z.of_nat gpos) h with
           | None => None
           | Some (false, h1) => Some (None, set h1 c (View g p gpos true))
           | Some (true, h1) =>
             match index_nonneg heap (next f' p) (gen_of p) (Z.of_nat gpos) h1 with
             | None => None
             | Some (v, h2) => Some (Some v, set h2 c (View (g ++ [v]) p (S gpos) false))
             end
           end
    end
  end.

(* deep_copy: LazyList(itertools.tee(value)[-1]) -- a new cell, g not started *)
Definition deep_copy (c : nat) (h : heap) : heap := View [] c 0 false :: h.

(* ---- observations ---------------------------------------------------------------- *)
Inductive kind :=
| KIndex (i : Z)                         (* L[i], any sign *)
| KSlice (start stop step : option Z)    (* L[start:stop:step], result forced *)
| KLen | KIter | KBool
| KContains (x : Z)
| KEqList (l : list Z)                   (* L == l *)
| KEqLazy (l : list Z)                   (* L == LazyList(l), a fresh one *)
| KCount (x : Z)
| KReversed                              (* list(L.reversed()) *)
| KCopy                                  (* deep_copy(L): a new cell *)
| KListify
| KHasInd (i : Z)
| KNext.                                 (* next(L): moves the cache, not an observation of the list *)

Record op := { target : nat; what : kind }.

Definition cell_size (x : cell) : nat :=
  match x with
  | Root g r => length g + length r
  | View g _ _ _ => length g
  end.
Fixpoint total (h : heap) : nat :=
  match h with [] => O | x :: tl => cell_size x + total tl end.
(* loop fuel: no cell denotes more items than the heap holds *)
Definition loop_fuel (h : heap) : nat := S (total h).

Definition resolve (h : heap) (t : nat) : nat := if Nat.ltb t (length h) then t else O.

Definition ret {A} (wrap : A -> out) (h : heap) (r : option (A * heap)) : out * heap :=
  match r with Some (a, h') => (wrap a, h') | None => (OFuel, h) end.

Definition step (h : heap) (o : op) : out * heap :=
  let c := resolve h (target o) in
  let nx := next (S c) c in
  let g := gen_of c in
  let lf := loop_fuel h in
  match what o with
  | KIndex i =>
    if i <? 0 then ret (fun x => x) h (index_neg heap nx g lf i h)
    else ret OZ h (index_nonneg heap nx g i h)
  | KSlice a b s => ret (fun x => x) h (getitem_slice heap nx g lf a b s h)
  | KLen => ret OZ h (len heap nx g lf h)
  | KIter => ret OL h (iterate heap nx g lf h)
  | KBool => ret OB h (truth heap nx g h)
  | KContains x => ret OB h (contains heap nx g lf x h)
  | KEqList l => ret OB h (eq_list heap nx g lf l h)
  | KEqLazy l =>
    (* self.listify() == other.listify(), other = LazyList(l) lives in a heap of its own *)
    match listify heap (next 1 0) (gen_of 0) (S (length l)) [Root [] l] with
    | None => (OFuel, h)
    | Some (m, _) => ret OB h (eq_list heap nx g lf m h)
    end
  | KCount x => ret OZ h (count heap nx g lf x h)
  | KReversed => ret OL h (reversed heap nx g lf h)
  | KCopy => (OUnit, deep_copy c h)
  | KListify => ret OL h (listify heap nx g lf h)
  | KHasInd i => ret OB h (has_ind heap nx g i h)
  | KNext =>
    match nx h with
    | None => (OFuel, h)
    | Some (Some v, h') => (OZ v, h')
    | Some (None, h') => (OStop, h')
    end
  end.

Fixpoint run (h : heap) (ops : list op) : list out * heap :=
  match ops with
  | [] => ([], h)
  | o :: r => let (x, h1) := step h o in let (xs, h2) := run h1 r in (x :: xs, h2)
  end.

Definition init (src : list Z) : heap := [Root [] src].

(* ---- the same observation on the plain list --------------------------------------- *)
Definition spec (k : kind) (l : list Z) : out :=
  match k with
  | KIndex i => if i <? 0 then py_neg_index l i else OZ (wrap_index l i)
  | KSlice a b s => py_slice l a b s
  | KLen => OZ (zlen l)
  | KIter => OL l
  | KBool => OB (negb (Nat.eqb (length l) 0))
  | KContains x => OB (existsb (fun v => v =? x) l)
  | KEqList m => OB (list_eqb l m)
  | KEqLazy m => OB (list_eqb l m)
  | KCount x => OZ (zcount x l)
  | KReversed => OL (rev l)
  | KCopy => OUnit
  | KListify => OL l
  | KHasInd i => OB ((0 <=? i) && (i <? zlen l))
  | KNext => OUnit
  end.

(* next is not an observation of the denoted list: its value is compared by the
   correspondence (and specified by next_value in the proofs), not by `spec` *)
Definition mask (k : kind) (o : out) : out :=
  match k with KNext => OUnit | _ => o end.

(* what a cell denotes *)
Definition den (x : cell) (older : nat -> list Z) : list Z :=
  match x with
  | Root g r => g ++ r
  | View g p gpos done => g ++ (if done then [] else skipn gpos (older p))
  end.
Fixpoint abs (h : heap) (c : nat) : list Z :=
  match h with
  | [] => []
  | x :: tl => if Nat.eqb c (length tl) then den x (abs tl) else abs tl c
  end.

(* every parent is an older cell *)
Fixpoint wf (h : heap) : Prop :=
  match h with
  | [] => True
  | x :: tl => match x with Root _ _ => True | View _ p _ _ => (p < length tl)%nat end /\ wf tl
  end.

(* observations within the scope of the theorems: a slice step is not 0 (a plain list
   raises ValueError, LazyList reads `step or 1`) *)
Definition op_ok (o : op) : bool :=
  match what o with
  | KSlice _ _ (Some s) => negb (s =? 0)
  | _ => true
  end.

(* decidable equality of results, used by the correspondence check; OFuel equals nothing *)
Definition out_eqb (a b : out) : bool :=
  match a, b with
  | OZ x, OZ y => Z.eqb x y
  | OL x, OL y => list_eqb x y
  | OB x, OB y => Bool.eqb x y
  | OStop, OStop | OIndexError, OIndexError | OValueError, OValueError | OUnit, OUnit => true
  | _, _ => false
  end.
Fixpoint outs_eqb (a b : list out) : bool :=
  match a, b with
  | [], [] => true
  | x :: a', y :: b' => out_eqb x y && outs_eqb a' b'
  | _, _ => false
  end.

(* the outputs as compared with the plain list: next's value is masked *)
Fixpoint masked (ops : list op) (outs : list out) : list out :=
  match ops, outs with
  | o :: r, x :: xs => mask (what o) x :: masked r xs
  | _, _ => []
  end.
