(* Model of the number/number overloads of add, subtract, multiply, divide, modulo and
   integer_divide (vyxal/elements.py) over Coq's rationals Q, and of the result
   normalisation (vyxal/helpers.py vyxalify: an integer-valued result is an integer,
   anything else a reduced p/q).  No proofs here.

     add / subtract / multiply   lhs + rhs, lhs - rhs, lhs * rhs
     divide                      0 if rhs == 0 else vyxalify(sympify(lhs) / rhs)
     integer_divide              0 if rhs == 0 else vyxalify(floor(sympify(lhs) / rhs))
     modulo                      lhs % rhs          (ZeroDivisionError when rhs == 0)

   Python's (and sympy's) `//` is the floor of the exact quotient and `%` is
   lhs - rhs * floor(lhs / rhs): the remainder has the sign of the divisor.
   Results are kept reduced (sympy's Rational always is); "the result is an integer"
   means: denominator 1 after reduction. *)
From Coq Require Import ZArith QArith Qround Qreduction Bool List.
Import ListNotations.
Open Scope Q_scope.

Definition is_zero (a : Q) : bool := Qeq_bool a 0.          (* `rhs == 0` *)
Definition is_int (a : Q) : bool := Pos.eqb (Qden (Qred a)) 1.
Definition qfloor (a : Q) : Q := inject_Z (Qfloor a).

(* ---- the six overloads (the property's reading of them) -------------------- *)
Definition vadd (a b : Q) : Q := Qred (a + b).
Definition vsub (a b : Q) : Q := Qred (a - b).
Definition vmul (a b : Q) : Q := Qred (a * b).
Definition vdiv (a b : Q) : Q := if is_zero b then 0 else Qred (a / b).
Definition vfloordiv (a b : Q) : Q := if is_zero b then 0 else qfloor (a / b).
(* meaningful for b <> 0 only; the implementation raises ZeroDivisionError for b = 0,
   see vmod_impl *)
Definition vmod (a b : Q) : Q := Qred (a - b * qfloor (a / b)).

(* ---- observable results: the canonical form the harness compares ----------- *)
Inductive cval :=
| CInt (n : Z)                 (* Python int or sympy Integer *)
| CRat (p : Z) (q : positive)  (* sympy Rational p/q, q > 1, reduced *)
| CZeroDiv                     (* ZeroDivisionError *)
| COther.                      (* float, other sympy expression, other exception: never produced by the model *)

Definition canon (a : Q) : cval :=
  let r := Qred a in
  if Pos.eqb (Qden r) 1 then CInt (Qnum r) else CRat (Qnum r) (Qden r).

Definition cval_eqb (x y : cval) : bool :=
  match x, y with
  | CInt a, CInt b => Z.eqb a b
  | CRat p q, CRat p' q' => Z.eqb p p' && Pos.eqb q q'
  | CZeroDiv, CZeroDiv => true
  | _, _ => false
  end.

Inductive op := OAdd | OSub | OMul | ODiv | OMod | OFloordiv.

Definition vmod_impl (a b : Q) : cval := if is_zero b then CZeroDiv else canon (vmod a b).

Definition run_op (o : op) (a b : Q) : cval :=
  match o with
  | OAdd => canon (vadd a b)
  | OSub => canon (vsub a b)
  | OMul => canon (vmul a b)
  | ODiv => canon (vdiv a b)
  | OMod => vmod_impl a b
  | OFloordiv => canon (vfloordiv a b)
  end.

(* one correspondence case: operator, lhs p/q, rhs p/q, and what the implementation
   returned (the operand representation -- Python int or sympy number -- is varied by
   the harness; the model does not depend on it) *)
Definition K (o : op) (p1 : Z) (q1 : positive) (p2 : Z) (q2 : positive) (r : cval) : bool :=
  cval_eqb (run_op o (Qmake p1 q1) (Qmake p2 q2)) r.

(* ---- expression trees over + - * / ------------------------------------------ *)
Inductive expr :=
| ELit (q : Q)
| EAdd (a b : expr)
| ESub (a b : expr)
| EMul (a b : expr)
| EDiv (a b : expr).

Definition L (p : Z) (q : positive) : expr := ELit (Qmake p q).

(* chained through the model of the element functions *)
Fixpoint eval_model (e : expr) : Q :=
  match e with
  | ELit q => q
  | EAdd a b => vadd (eval_model a) (eval_model b)
  | ESub a b => vsub (eval_model a) (eval_model b)
  | EMul a b => vmul (eval_model a) (eval_model b)
  | EDiv a b => vdiv (eval_model a) (eval_model b)
  end.

(* the reference: field arithmetic of Q *)
Fixpoint eval_Q (e : expr) : Q :=
  match e with
  | ELit q => q
  | EAdd a b => eval_Q a + eval_Q b
  | ESub a b => eval_Q a - eval_Q b
  | EMul a b => eval_Q a * eval_Q b
  | EDiv a b => eval_Q a / eval_Q b
  end.

(* every divisor of the tree has a non-zero value *)
Fixpoint divisors_nonzero (e : expr) : Prop :=
  match e with
  | ELit _ => True
  | EAdd a b | ESub a b | EMul a b => divisors_nonzero a /\ divisors_nonzero b
  | EDiv a b => divisors_nonzero a /\ divisors_nonzero b /\ ~ eval_Q b == 0
  end.

(* tree correspondence case: the tree and the canonical result of the implementation *)
Definition TC (e : expr) (r : cval) : bool := cval_eqb (canon (eval_model e)) r.
