(* C06: the quote element and what becomes of its output.
   - quotify_str: the string overload of elements.quotify, i.e. the text between two
     back-quotes after lhs.replace(BACKSLASH, BACKSLASH BACKSLASH).replace(BACKQUOTE,
     BACKSLASH BACKQUOTE) (str.replace with a one-character pattern is a per-character
     substitution);
   - py_dq_decode: Python's decoding of the body of a double-quoted string literal,
     restricted to raw characters and the four escapes backslash-backslash,
     backslash-dquote, backslash-n, backslash-r.  None = outside that domain (another escape such as
     backslash-a, backslash-x41, backslash-backquote; a raw double quote; a raw newline /
     carriage return / NUL; a surrogate; a trailing lone backslash);
   - pushed_string: the string appended by the statement stack.append(DQUOTE body DQUOTE);
   - uncompress_dict: helpers.uncompress_dict, parametric in the two dictionaries.

   No proofs in this file. *)
From Coq Require Import List NArith ZArith Bool String Ascii.
From Vy Require Import Model.Base Model.Lexer Model.Parser Model.Transpile Model.Literals Gen.Codepage.
Import ListNotations.
Open Scope N_scope.

(* ---- elements.quotify (str) ------------------------------------------------------------ *)
Definition replace_char (c : N) (by_ : str) (s : str) : str :=
  flat_map (fun x => if N.eqb x c then by_ else [x]) s.

Definition quote_body (s : str) : str :=
  replace_char 96 [92; 96] (replace_char 92 [92; 92] s).

Definition quotify_str (s : str) : str := [96] ++ quote_body s ++ [96].

(* what one character of the original string becomes *)
Definition quote_char (c : N) : str :=
  if N.eqb c 92 then [92; 92] else if N.eqb c 96 then [92; 96] else [c].

(* ---- Python's reading of a double-quoted literal body ---------------------------------------- *)
(* characters a one-line Python string literal may contain as they are *)
Definition py_raw_char (c : N) : bool :=
  negb (N.eqb c 0) && negb (N.eqb c 10) && negb (N.eqb c 13) && negb (N.eqb c 34) && negb (N.eqb c 92)
  && negb ((55296 <=? c) && (c <=? 57343)) && (c <=? 1114111).

Definition opt_cons (c : N) (o : option str) : option str :=
  match o with Some r => Some (c :: r) | None => None end.

Fixpoint py_dq_decode (s : str) : option str :=
  match s with
  | [] => Some []
  | c :: r =>
      if N.eqb c 92 then
        match r with
        | [] => None
        | e :: r' =>
            if N.eqb e 92 then opt_cons 92 (py_dq_decode r')
            else if N.eqb e 34 then opt_cons 34 (py_dq_decode r')
            else if N.eqb e 110 then opt_cons 10 (py_dq_decode r')
            else if N.eqb e 114 then opt_cons 13 (py_dq_decode r')
            else None
        end
      else if py_raw_char c then opt_cons c (py_dq_decode r)
      else None
  end.

(* the value appended by the statement stack.append(DQUOTE body DQUOTE) *)
Definition pushed_string (text : str) : option str :=
  match strip_prefix (L "stack.append(""") text with
  | Some r => match strip_suffix (L """)") r with Some body => py_dq_decode body | None => None end
  | None => None
  end.

(* the characters of the original string for which the round trip is claimed: everything a
   Python source text can hold raw, plus the five the pipeline escapes (backslash,
   back-quote, double quote, newline, carriage return) *)
Definition quotable_char (c : N) : bool :=
  negb (N.eqb c 0) && negb ((55296 <=? c) && (c <=? 57343)) && (c <=? 1114111).

Definition printable_ascii (c : N) : bool := (32 <=? c) && (c <=? 126).

(* ---- helpers.uncompress_dict -------------------------------------------------------------------- *)
Section Dict.
  Variable small : list str.      (* vyxal.dictionary.small_dictionary *)
  Variable contents : list str.   (* vyxal.dictionary.contents *)

  (* `pos = compression.find(temp_scc); if pos < len(small): ret += small[pos]` for the
     one-character temp_scc (it is reset as soon as it has two characters).  find = -1
     (not reachable: only compression characters enter temp_scc) indexes from the end. *)
  Definition small_lookup (c : N) : str :=
    match find_index c compression with
    | Some i => if i <? N.of_nat (List.length small) then nth (N.to_nat i) small [] else []
    | None => last small []
    end.

  (* two compression characters: index in base len(compression) into the big dictionary *)
  Definition contents_lookup (c1 c2 : N) : str :=
    let i := from_base_alphabet [c1; c2] compression in
    if (i <? Z.of_nat (List.length contents))%Z then nth (Z.to_nat i) contents [] else [].

  (* state: ret, temp_scc (empty or one character), escaped *)
  Definition ud_state := (str * option N * bool)%type.

  Definition ud_step (st : ud_state) (ch : N) : ud_state :=
    let '(ret, scc, esc) := st in
    if esc then
      let ret1 := match scc with Some c => ret ++ small_lookup c | None => ret end in
      let ret2 := if mem ch compression then ret1 else ret1 ++ [92] in
      (ret2 ++ [ch], None, false)
    else if N.eqb ch 92 then (ret, scc, true)
    else if mem ch compression then
      match scc with
      | None => (ret, Some ch, false)
      | Some c => (ret ++ contents_lookup c ch, None, false)
      end
    else
      match scc with
      | Some c => if N.eqb ch 32 then (ret ++ small_lookup c, None, false)
                  else (ret ++ small_lookup c ++ [ch], None, false)
      | None => (ret ++ [ch], None, false)
      end.

  Definition ud_finish (st : ud_state) : str :=
    let '(ret, scc, _) := st in
    match scc with Some c => ret ++ small_lookup c | None => ret end.

  Definition uncompress_dict (s : str) : str := ud_finish (fold_left ud_step s ([], None, false)).
End Dict.
