(* Model of the structural list builtins of vyxal/elements.py and vyxal/helpers.py
   (property C16), over integer lists.  Each definition follows the control flow of
   the Python function it is named after and reproduces its OUTPUT ORDER; the
   conventions of the implementation on the empty list are part of the model
   (sum [] = 0, product [] = 0, max/min [] = "no value", head/tail [] = 0).
   No proofs here; the laws are in Proofs/C16*.v, the tie to the implementation is
   the correspondence check of props/C16.py. *)
From Coq Require Import List ZArith Bool Arith.
Import ListNotations.
Open Scope Z_scope.

(* ---- membership on Z ------------------------------------------------------- *)
Definition memZ (x : Z) (l : list Z) : bool := existsb (Z.eqb x) l.

(* ---- vy_sort: LazyList(sorted(lhs)); sorted() is a stable sort, modelled by the
   stable insertion sort for a total boolean order ------------------------------ *)
Section InsertionSort.
  Context {A : Type} (leb : A -> A -> bool).
  Fixpoint insert (x : A) (l : list A) : list A :=
    match l with
    | [] => [x]
    | y :: r => if leb x y then x :: l else y :: insert x r
    end.
  Fixpoint isort (l : list A) : list A :=
    match l with
    | [] => []
    | x :: r => insert x (isort r)
    end.
End InsertionSort.

Definition sort (l : list Z) : list Z := isort Z.leb l.

(* ---- reverse: lhs[::-1] ---------------------------------------------------- *)
Definition reverse (l : list Z) : list Z := fold_left (fun acc x => x :: acc) l [].

(* ---- uniquify: `seen` list, an item is yielded when it is not in `seen` ------ *)
Fixpoint uniq_go (seen l : list Z) : list Z :=
  match l with
  | [] => []
  | x :: r => if memZ x seen then uniq_go seen r else x :: uniq_go (seen ++ [x]) r
  end.
Definition uniquify (l : list Z) : list Z := uniq_go [] l.

(* ---- deep_flatten: nested lists, leaves yielded left to right ---------------- *)
Inductive tree : Type := Leaf (z : Z) | Node (ts : list tree).
Fixpoint flatten (t : tree) : list Z :=
  match t with
  | Leaf z => [z]
  | Node ts => flat_map flatten ts
  end.
(* deep_flatten is applied to a list: the top level is always a Node *)
Definition deep_flatten (ts : list tree) : list Z := flatten (Node ts).

(* ---- foldl (helpers.py): 0 on an empty vector, else the first item is the
   initial accumulator --------------------------------------------------------- *)
Definition foldl1 (f : Z -> Z -> Z) (l : list Z) : Z :=
  match l with
  | [] => 0
  | x :: r => fold_left f r x
  end.
Definition vsum (l : list Z) : Z := foldl1 Z.add l.
(* product = vy_reduce(multiply, lhs): the empty product is 0 in the implementation *)
Definition product (l : list Z) : Z := foldl1 Z.mul l.

(* monadic_maximum / monadic_minimum: [] on an empty list (None here), else
   max_by / min_by = foldl with the strict comparison less_than *)
Definition maximum (l : list Z) : option Z :=
  match l with
  | [] => None
  | _ => Some (foldl1 (fun a b => if a <? b then b else a) l)
  end.
Definition minimum (l : list Z) : option Z :=
  match l with
  | [] => None
  | _ => Some (foldl1 (fun a b => if a <? b then a else b) l)
  end.

(* ---- cumulative_sum = scanl(add): yields the accumulator before each step and
   once at the end; nothing on an empty list ----------------------------------- *)
Fixpoint scan_go (acc : Z) (l : list Z) : list Z :=
  match l with
  | [] => [acc]
  | x :: r => acc :: scan_go (acc + x) r
  end.
Definition cumsum (l : list Z) : list Z :=
  match l with
  | [] => []
  | x :: r => scan_go x r
  end.

(* ---- deltas: item - prev for every item after the first ---------------------- *)
Fixpoint deltas_go (prev : Z) (l : list Z) : list Z :=
  match l with
  | [] => []
  | x :: r => (x - prev) :: deltas_go x r
  end.
Definition deltas (l : list Z) : list Z :=
  match l with
  | [] => []
  | x :: r => deltas_go x r
  end.

(* ---- vy_zip: pairs until BOTH iterators are exhausted, missing items are 0 ---- *)
Fixpoint zip (a b : list Z) : list (Z * Z) :=
  match a with
  | [] => map (fun y => (0, y)) b
  | x :: a' =>
      match b with
      | [] => (x, 0) :: map (fun x' => (x', 0)) a'
      | y :: b' => (x, y) :: zip a' b'
      end
  end.

(* ---- transpose (helpers.py): zip_longest with filler None, the None removed:
   column j consists of the j-th items of the rows that have one ---------------- *)
Definition column (j : nat) (rows : list (list Z)) : list Z :=
  flat_map (fun r => match nth_error r j with Some x => [x] | None => [] end) rows.
Definition max_len (rows : list (list Z)) : nat :=
  fold_right (fun r m => Nat.max (length r) m) 0%nat rows.
Definition transpose (rows : list (list Z)) : list (list Z) :=
  map (fun j => column j rows) (seq 0 (max_len rows)).

(* ---- interleave: alternate, the rest of the longer list is appended ---------- *)
Fixpoint interleave (a b : list Z) : list Z :=
  match a, b with
  | [], _ => b
  | _, [] => a
  | x :: a', y :: b' => x :: y :: interleave a' b'
  end.

(* ---- uninterleave: [a[::2], a[1::2]] ----------------------------------------- *)
Fixpoint evens (l : list Z) : list Z :=
  match l with
  | [] => []
  | [x] => [x]
  | x :: _ :: r => x :: evens r
  end.
Definition odds (l : list Z) : list Z := evens (tl l).
Definition uninterleave (l : list Z) : list Z * list Z := (evens l, odds l).

(* ---- wrap (chunks of k): `temp` collects items and is yielded when it has k of
   them; a non-empty rest shorter than k is yielded at the end.  k = 0: nothing. *)
Fixpoint wrap_go (k : nat) (temp l : list Z) : list (list Z) :=
  match l with
  | [] => if negb (Nat.eqb (length temp) 0) && (length temp <? k)%nat then [temp] else []
  | x :: r =>
      let t := temp ++ [x] in
      if Nat.eqb (length t) k then t :: wrap_go k [] r else wrap_go k t r
  end.
Definition wrap (k : nat) (l : list Z) : list (list Z) := wrap_go k [] l.

(* ---- prefixes (helpers.py): temp grows by one item and is yielded ------------ *)
Fixpoint pref_go (temp l : list Z) : list (list Z) :=
  match l with
  | [] => []
  | x :: r => (temp ++ [x]) :: pref_go (temp ++ [x]) r
  end.
Definition prefixes (l : list Z) : list (list Z) := pref_go [] l.

(* ---- suffixes (helpers.py): while lst: yield lst; lst = lst[1:] -------------- *)
Fixpoint suffixes (l : list Z) : list (list Z) :=
  match l with
  | [] => []
  | _ :: r => l :: suffixes r
  end.

(* ---- sublists: for prefix in prefixes: yield from suffixes(prefix) ----------- *)
Definition sublists (l : list Z) : list (list Z) := flat_map suffixes (prefixes l).

(* ---- powerset: [] first; every new item doubles the collection.  The order
   produced by the implementation (prev_sets ++ [s + [x] for s in prev_sets]) is
   binary counting with the FIRST item as the lowest bit, which is also what this
   head recursion produces ------------------------------------------------------ *)
Fixpoint powerset (l : list Z) : list (list Z) :=
  match l with
  | [] => [[]]
  | x :: r => flat_map (fun s => [s; x :: s]) (powerset r)
  end.
(* the implementation's loop, literally: used by the proofs to show both orders agree *)
Definition powerset_loop (l : list Z) : list (list Z) :=
  fold_left (fun prev x => prev ++ map (fun s => s ++ [x]) prev) l [[]].

(* ---- permutations: itertools.permutations order: choose position i = 0..n-1 for
   the first item, then the permutations of the remaining items ----------------- *)
Fixpoint selects (l : list Z) : list (Z * list Z) :=
  match l with
  | [] => []
  | x :: r => (x, r) :: map (fun p => (fst p, x :: snd p)) (selects r)
  end.
Fixpoint perms_fuel (n : nat) (l : list Z) : list (list Z) :=
  match n with
  | O => [[]]
  | S n' => flat_map (fun p => map (cons (fst p)) (perms_fuel n' (snd p))) (selects l)
  end.
Definition permutations (l : list Z) : list (list Z) := perms_fuel (length l) l.

(* ---- cartesian_product: every pair once.  The implementation enumerates along
   anti-diagonals; `cart_diag` reproduces that order, `cart` is the row-major
   enumeration the laws are stated for --------------------------------------- *)
Definition cart (a b : list Z) : list (Z * Z) :=
  flat_map (fun x => map (fun y => (x, y)) b) a.
Definition cart_diag (a b : list Z) : list (Z * Z) :=
  flat_map (fun d =>
    flat_map (fun i => match nth_error a i, nth_error b (d - i) with
                       | Some x, Some y => [(x, y)]
                       | _, _ => []
                       end) (seq 0 (S d)))
    (seq 0 (length a + length b - 1)).

(* ---- count_item, contains, find ------------------------------------------------ *)
Fixpoint count (x : Z) (l : list Z) : Z :=
  match l with
  | [] => 0
  | y :: r => (if y =? x then 1 else 0) + count x r
  end.
Definition contains (x : Z) (l : list Z) : bool := memZ x l.
Fixpoint find_from (pos : Z) (x : Z) (l : list Z) : Z :=
  match l with
  | [] => -1
  | y :: r => if y =? x then pos else find_from (pos + 1) x r
  end.
Definition find (x : Z) (l : list Z) : Z := find_from 0 x l.

(* ---- group_consecutive: runs of equal items ----------------------------------- *)
Fixpoint grp_go (prev : Z) (cnt : nat) (l : list Z) : list (list Z) :=
  match l with
  | [] => [repeat prev cnt]
  | x :: r => if prev =? x then grp_go prev (S cnt) r else repeat prev cnt :: grp_go x 1 r
  end.
Definition group_consecutive (l : list Z) : list (list Z) :=
  match l with
  | [] => []
  | x :: r => grp_go x 1 r
  end.

(* ---- counts: [[x, count(x)] for x in uniquify(a)] ----------------------------- *)
Definition counts (l : list Z) : list (Z * Z) := map (fun x => (x, count x l)) (uniquify l).

(* ---- grade_up / grade_down: indices sorted by the item they point at;
   sorted(..., key) and sorted(..., key, reverse=True) are both stable, i.e. ties
   are in increasing index order ------------------------------------------------- *)
Definition up_leb (p q : Z * nat) : bool :=
  (fst p <? fst q) || ((fst p =? fst q) && (snd p <=? snd q)%nat).
Definition down_leb (p q : Z * nat) : bool :=
  (fst q <? fst p) || ((fst p =? fst q) && (snd p <=? snd q)%nat).
Definition indexed (l : list Z) : list (Z * nat) := combine l (seq 0 (length l)).
Definition grade_up (l : list Z) : list nat := map snd (isort up_leb (indexed l)).
Definition grade_down (l : list Z) : list nat := map snd (isort down_leb (indexed l)).

(* ---- head, tail, head_remove, tail_remove, length ------------------------------ *)
Definition head (l : list Z) : Z := match l with [] => 0 | x :: _ => x end.
Fixpoint tail (l : list Z) : Z :=
  match l with
  | [] => 0
  | [x] => x
  | _ :: r => tail r
  end.
Definition head_remove (l : list Z) : list Z := match l with [] => [] | _ :: r => r end.
Fixpoint tail_remove (l : list Z) : list Z :=
  match l with
  | [] => []
  | [x] => []
  | x :: r => x :: tail_remove r
  end.
Definition length_ (l : list Z) : Z := Z.of_nat (length l).

(* ---- vocabulary of the laws (used only in the statements of Properties/C16.v) --- *)
(* the items at the positions i whose value does not occur before position i *)
Definition first_occurrences (l : list Z) : list Z :=
  flat_map (fun i => if memZ (nth i l 0) (firstn i l) then [] else [nth i l 0]) (seq 0 (length l)).

(* the leaves of a nested list, left to right *)
Inductive leaves_of : tree -> list Z -> Prop :=
| leaves_leaf z : leaves_of (Leaf z) [z]
| leaves_node ts ls : Forall2 leaves_of ts ls -> leaves_of (Node ts) (concat ls).

(* s is obtained from l by deleting items *)
Inductive subseq : list Z -> list Z -> Prop :=
| subseq_nil : subseq [] []
| subseq_skip x s l : subseq s l -> subseq s (x :: l)
| subseq_take x s l : subseq s l -> subseq (x :: s) (x :: l).

(* a group is a non-empty run of one value *)
Definition run (g : list Z) : Prop := exists v n, g = repeat v (S n).

(* neighbouring groups hold different values *)
Definition heads_differ (g1 g2 : list Z) : Prop := hd 0 g1 <> hd 0 g2.

(* grading: the item a position points at; when position i may stand before j *)
Definition value (l : list Z) (i : nat) : Z := nth i l 0.
(* i may stand before j in the ascending (descending) grade *)
Definition up_before (l : list Z) (i j : nat) : Prop :=
  value l i < value l j \/ (value l i = value l j /\ (i <= j)%nat).
Definition down_before (l : list Z) (i j : nat) : Prop :=
  value l j < value l i \/ (value l i = value l j /\ (i <= j)%nat).

