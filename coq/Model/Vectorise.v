(* Model of vectorisation (property C08): vyxal/elements.py `vectorise`, `vy_zip`,
   `vy_type`, and a generic element interpreting the dispatch skeleton that
   tools/gen_dispatch.py reads from an element function (Gen/Dispatch.v).
   No proofs here. *)
From Coq Require Import List NArith ZArith Bool Arith.
From Vy Require Import Model.Base.
Import ListNotations.

(* ---- values ---------------------------------------------------------------
   numbers (the model never computes with them: what an element does to scalars
   is the arbitrary function `base` below, so Z stands for int and Rational
   alike), strings, lists with their representation (false = Python list,
   true = LazyList), and VErr = "not a data value": a function object, the
   result of a path the model does not describe, or out of fuel. *)
Inductive v : Type :=
  | VNum (z : Z)
  | VStr (s : str)
  | VList (lazy : bool) (items : list v)
  | VErr.

(* vy_type's answers *)
Inductive tag := TNum | TStr | TList | TLazy | TFun.

Definition tag_eqb (a b : tag) : bool :=
  match a, b with
  | TNum, TNum | TStr, TStr | TList, TList | TLazy, TLazy | TFun, TFun => true
  | _, _ => false
  end.

Definition tag_of (a : v) : tag :=
  match a with
  | VNum _ => TNum
  | VStr _ => TStr
  | VList false _ => TList
  | VList true _ => TLazy
  | VErr => TFun
  end.

(* vy_type(..., simple=True) reports LazyList as list *)
Definition simplify_tag (simple : bool) (t : tag) : tag :=
  match t with TLazy => if simple then TList else TLazy | _ => t end.

Definition is_list (a : v) : bool := match a with VList _ _ => true | _ => false end.
(* helpers.primitive_type: int / Rational / str are scalars *)
Definition is_scalar (a : v) : bool := match a with VNum _ | VStr _ => true | _ => false end.
Definition listy (t : tag) : bool := match t with TList | TLazy => true | _ => false end.

(* ---- dispatch skeletons ----------------------------------------------------- *)
Inductive pat := PTag (t : tag) | PAny.          (* PAny: a key component written ts[i] *)

Inductive leaf :=
  | Scalar                   (* code of the element itself (opaque) *)
  | Vec (explicit : bool)    (* return vectorise(<same function>, <same arguments>, explicit=...) *)
  | Other.                   (* not recognised *)

Inductive cond :=
  | CMatch (simple : bool) (ps : list pat)   (* the argument types match, position by position *)
  | CFlag (name : str)                       (* ctx.<name> *)
  | COpaque (id : nat)                       (* a test on values, not on types *)
  | CNot (c : cond)
  | CAnd (a b : cond)
  | COr (a b : cond).

Inductive dtree :=
  | Leaf (l : leaf)
  | If (c : cond) (t e : dtree).

(* `{k1: v1, ..., kn: vn}.get(ts, default)()`: a later equal key replaces an earlier
   one, so the rows are tried from the last to the first *)
Definition Table (simple : bool) (rows : list (list pat * dtree)) (default : dtree) : dtree :=
  fold_left (fun acc r => If (CMatch simple (fst r)) (snd r) acc) rows default.

Record dentry := { de_key : str; de_fn : str; de_arity : nat; de_tree : dtree }.

Definition leaf_eqb (a b : leaf) : bool :=
  match a, b with
  | Scalar, Scalar | Other, Other => true
  | Vec x, Vec y => Bool.eqb x y
  | _, _ => false
  end.

Definition pat_match (simple : bool) (p : pat) (t : tag) : bool :=
  match p with PAny => true | PTag u => tag_eqb u (simplify_tag simple t) end.

Fixpoint pats_match (simple : bool) (ps : list pat) (ts : list tag) : bool :=
  match ps, ts with
  | [], [] => true
  | p :: ps', t :: ts' => pat_match simple p t && pats_match simple ps' ts'
  | _, _ => false
  end.

(* two-valued evaluation: context flags from `flags`, value tests from the oracle *)
Fixpoint eval_cond (flags : str -> bool) (orc : nat -> bool) (ts : list tag) (c : cond) : bool :=
  match c with
  | CMatch simple ps => pats_match simple ps ts
  | CFlag n => flags n
  | COpaque i => orc i
  | CNot a => negb (eval_cond flags orc ts a)
  | CAnd a b => eval_cond flags orc ts a && eval_cond flags orc ts b
  | COr a b => eval_cond flags orc ts a || eval_cond flags orc ts b
  end.

Fixpoint pick (flags : str -> bool) (orc : nat -> bool) (d : dtree) (ts : list tag) : leaf :=
  match d with
  | Leaf l => l
  | If c t e => if eval_cond flags orc ts c then pick flags orc t ts else pick flags orc e ts
  end.

(* three-valued evaluation: None = depends on a value test *)
Fixpoint eval_cond3 (flags : str -> bool) (ts : list tag) (c : cond) : option bool :=
  match c with
  | CMatch simple ps => Some (pats_match simple ps ts)
  | CFlag n => Some (flags n)
  | COpaque _ => None
  | CNot a => option_map negb (eval_cond3 flags ts a)
  | CAnd a b =>
      match eval_cond3 flags ts a, eval_cond3 flags ts b with
      | Some false, _ | _, Some false => Some false
      | Some true, Some true => Some true
      | _, _ => None
      end
  | COr a b =>
      match eval_cond3 flags ts a, eval_cond3 flags ts b with
      | Some true, _ | _, Some true => Some true
      | Some false, Some false => Some false
      | _, _ => None
      end
  end.

(* every leaf some oracle could reach with these argument types *)
Fixpoint reach (flags : str -> bool) (d : dtree) (ts : list tag) : list leaf :=
  match d with
  | Leaf l => [l]
  | If c t e =>
      match eval_cond3 flags ts c with
      | Some true => reach flags t ts
      | Some false => reach flags e ts
      | None => reach flags t ts ++ reach flags e ts
      end
  end.

(* the default context: every flag off (Context.__init__) *)
Definition default_flags : str -> bool := fun _ => false.

(* ---- vy_zip and vectorise ------------------------------------------------------ *)
(* vy_zip(lhs, rhs): pairs until BOTH are exhausted, the shorter side filled with 0 *)
Fixpoint zip_fill (xs ys : list v) : list (v * v) :=
  match xs with
  | [] => map (fun y => (VNum 0, y)) ys
  | x :: xs' =>
      match ys with
      | [] => (x, VNum 0) :: zip_fill xs' []
      | y :: ys' => (x, y) :: zip_fill xs' ys'
      end
  end.

(* vectorise(function, lhs), explicit=False.  iterable(lhs): a list is itself, a
   string its characters; a number becomes its digits or a range depending on ctx
   flags -- not described (VErr). The result is always a LazyList. *)
Definition vectorise1 (f : v -> v) (a : v) : v :=
  match a with
  | VList _ xs => VList true (map f xs)
  | VStr s => VList true (map (fun c => f (VStr [c])) s)
  | VNum _ | VErr => VErr
  end.

(* vectorise(function, lhs, rhs), explicit=False: the `simple` table on
   primitive_type.  (scalar, scalar) is LazyList(function(lhs, rhs)), a wrapped
   scalar result: not described (VErr). *)
Definition vectorise2 (f : v -> v -> v) (a b : v) : v :=
  match a, b with
  | VList _ xs, VList _ ys => VList true (map (fun p => f (fst p) (snd p)) (zip_fill xs ys))
  | VList _ xs, (VNum _ | VStr _) => VList true (map (fun x => f x b) xs)
  | (VNum _ | VStr _), VList _ ys => VList true (map (fun y => f a y) ys)
  | _, _ => VErr
  end.

(* ---- nesting depth ---------------------------------------------------------------- *)
Fixpoint depth (a : v) : nat :=
  match a with
  | VList _ xs => S (fold_right (fun x m => Nat.max (depth x) m) O xs)
  | _ => O
  end.

(* ---- the generic element ---------------------------------------------------------
   What an element does when every argument is a scalar is NOT constrained by C08:
   it is the arbitrary function `base` (this includes elements whose string overload
   itself goes through vectorise over the characters).  With a list among the
   arguments the dispatch skeleton decides: a `Scalar` leaf is an overload of the
   element that takes the list whole (again `base`), `Vec false` calls vectorise
   with the element itself, anything else is not described.
   Fuel: one unit per nesting level; out of fuel = VErr. *)
Section Element.
  Variable d : dtree.
  Variable flags : str -> bool.
  Variable orc : nat -> bool.

  Section Monadic.
    Variable base1 : v -> v.
    Fixpoint gen_elem1 (fuel : nat) (a : v) : v :=
      match fuel with
      | O => VErr
      | S k =>
          if is_list a then
            match pick flags orc d [tag_of a] with
            | Scalar => base1 a
            | Vec false => vectorise1 (gen_elem1 k) a
            | Vec true | Other => VErr
            end
          else base1 a
      end.
    Definition elem1 (a : v) : v := gen_elem1 (S (depth a)) a.
  End Monadic.

  Section Dyadic.
    Variable base2 : v -> v -> v.
    Fixpoint gen_elem2 (fuel : nat) (a b : v) : v :=
      match fuel with
      | O => VErr
      | S k =>
          if is_list a || is_list b then
            match pick flags orc d [tag_of a; tag_of b] with
            | Scalar => base2 a b
            | Vec false => vectorise2 (gen_elem2 k) a b
            | Vec true | Other => VErr
            end
          else base2 a b
      end.
    Definition elem2 (a b : v) : v := gen_elem2 (S (Nat.max (depth a) (depth b))) a b.
  End Dyadic.
End Element.

(* ---- the property ------------------------------------------------------------------ *)
(* a list -> the list of the results for its items, eager or lazy alike *)
Definition elementwise1 (f : v -> v) : Prop :=
  forall lz xs, f (VList lz xs) = VList true (map f xs).

(* list/scalar and scalar/list: the scalar is paired with every item;
   list/list: as long as the longer list, item i computed from the two items at
   position i, a missing item replaced by 0 *)
Definition law_ls (f : v -> v -> v) (lz : bool) (xs : list v) (s : v) : Prop :=
  f (VList lz xs) s = VList true (map (fun x => f x s) xs).
Definition law_sl (f : v -> v -> v) (s : v) (lz : bool) (ys : list v) : Prop :=
  f s (VList lz ys) = VList true (map (fun y => f s y) ys).
Definition law_ll (f : v -> v -> v) (lx : bool) (xs : list v) (ly : bool) (ys : list v) : Prop :=
  exists rs, f (VList lx xs) (VList ly ys) = VList true rs
    /\ length rs = Nat.max (length xs) (length ys)
    /\ forall i, (i < length rs)%nat -> nth i rs VErr = f (nth i xs (VNum 0)) (nth i ys (VNum 0)).

Definition elementwise2 (f : v -> v -> v) : Prop :=
  (forall lz xs s, is_scalar s = true -> law_ls f lz xs s)
  /\ (forall s lz ys, is_scalar s = true -> law_sl f s lz ys)
  /\ (forall lx xs ly ys, law_ll f lx xs ly ys).

(* the same, restricted to the argument-type combinations accepted by `ok` (all but
   the documented overloads, see below) *)
Definition elementwise1_on (ok : list tag -> bool) (f : v -> v) : Prop :=
  forall lz xs, ok [tag_of (VList lz xs)] = true -> f (VList lz xs) = VList true (map f xs).
Definition elementwise2_on (ok : list tag -> bool) (f : v -> v -> v) : Prop :=
  (forall lz xs s, is_scalar s = true -> ok [tag_of (VList lz xs); tag_of s] = true -> law_ls f lz xs s)
  /\ (forall s lz ys, is_scalar s = true -> ok [tag_of s; tag_of (VList lz ys)] = true -> law_sl f s lz ys)
  /\ (forall lx xs ly ys, ok [tag_of (VList lx xs); tag_of (VList ly ys)] = true -> law_ll f lx xs ly ys).

(* closed form for nested lists: the scalar function applied at the leaves *)
Fixpoint deep1 (g : v -> v) (a : v) : v :=
  match a with
  | VList _ xs => VList true (map (deep1 g) xs)
  | _ => g a
  end.

Fixpoint deep2 (g : v -> v -> v) (n : nat) (a b : v) : v :=
  match n with
  | O => VErr
  | S k =>
      match a, b with
      | VList _ xs, VList _ ys => VList true (map (fun p => deep2 g k (fst p) (snd p)) (zip_fill xs ys))
      | VList _ xs, _ => VList true (map (fun x => deep2 g k x b) xs)
      | _, VList _ ys => VList true (map (fun y => deep2 g k a y) ys)
      | _, _ => g a b
      end
  end.

(* data values: no VErr anywhere *)
Fixpoint data (a : v) : bool :=
  match a with
  | VList _ xs => forallb data xs
  | VErr => false
  | _ => true
  end.

(* ---- the decidable check on a skeleton ------------------------------------------------- *)
Definition data_tags : list tag := [TNum; TStr; TList; TLazy].

Fixpoint tag_tuples (n : nat) : list (list tag) :=
  match n with
  | O => [[]]
  | S k => flat_map (fun t => map (cons t) (tag_tuples k)) data_tags
  end.

(* with these argument types every path ends in `vectorise(self, args)`, non-explicit *)
Definition shape_ok (d : dtree) (ts : list tag) : bool :=
  forallb (leaf_eqb (Vec false)) (reach default_flags d ts).

(* with these argument types no path ends in the non-explicit vectorise fallback:
   the element has an overload of its own there *)
Definition shape_never_vec (d : dtree) (ts : list tag) : bool :=
  forallb (fun l => negb (leaf_eqb (Vec false) l)) (reach default_flags d ts).

(* every combination of argument types with a list among them, except those accepted by `ex` *)
Definition vec_complete_ex (ex : list tag -> bool) (arity : nat) (d : dtree) : bool :=
  forallb (fun ts => negb (existsb listy ts) || ex ts || shape_ok d ts) (tag_tuples arity).

Definition vec_complete (arity : nat) (d : dtree) : bool := vec_complete_ex (fun _ => false) arity d.

(* ---- overloads documented in elements.yaml -----------------------------------------
   An entry's `overloads:` keys name argument types: num, str, lst, fun, any.  A
   combination of argument types with a list among them is a DOCUMENTED OVERLOAD of an
   element when some documented key matches it (lst or any at every list position) AND
   the element's skeleton has an overload of its own there (it never reaches the
   vectorise fallback).  For such a combination the documentation itself says that
   the element does something else with the list, so C08 does not apply to it; every
   other combination stays strict (in particular a list overload present in the code
   but absent from the documentation is rejected by vec_complete_ex). *)
Inductive dpat := DNum | DStr | DLst | DFun | DAny.

Definition dpat_match (p : dpat) (t : tag) : bool :=
  match p, t with
  | DAny, _ | DNum, TNum | DStr, TStr | DLst, TList | DLst, TLazy | DFun, TFun => true
  | _, _ => false
  end.

Fixpoint dpats_match (ps : list dpat) (ts : list tag) : bool :=
  match ps, ts with
  | [], [] => true
  | p :: ps', t :: ts' => dpat_match p t && dpats_match ps' ts'
  | _, _ => false
  end.

Definition documented (docs : list (str * list dpat)) (k : str) (ts : list tag) : bool :=
  existsb (fun x => str_eqb (fst x) k && dpats_match (snd x) ts) docs.

Definition documented_overload (docs : list (str * list dpat)) (e : dentry) (ts : list tag) : bool :=
  documented docs (de_key e) ts && shape_never_vec (de_tree e) ts.

Definition entry_ok (docs : list (str * list dpat)) (e : dentry) : bool :=
  match de_arity e with
  | 1%nat | 2%nat => vec_complete_ex (documented_overload docs e) (de_arity e) (de_tree e)
  | _ => false
  end.

(* ---- helpers for the correspondence checks run by props/C08.py ---------------------------- *)
Fixpoint v_eqb (a b : v) {struct a} : bool :=
  match a, b with
  | VNum x, VNum y => Z.eqb x y
  | VStr x, VStr y => str_eqb x y
  | VList la xs, VList lb ys =>
      Bool.eqb la lb &&
      (fix go (xs ys : list v) : bool :=
         match xs, ys with
         | [], [] => true
         | x :: xs', y :: ys' => v_eqb x y && go xs' ys'
         | _, _ => false
         end) xs ys
  | VErr, VErr => true
  | _, _ => false
  end.

(* forget the representation (the harness compares forced lists) *)
Fixpoint eager (a : v) : v :=
  match a with
  | VList _ xs => VList false (map eager xs)
  | _ => a
  end.

(* a scalar function given as a finite table (the implementation's own results) *)
Fixpoint lookup1 (t : list (v * v)) (a : v) : v :=
  match t with
  | [] => VErr
  | (k, r) :: t' => if v_eqb k a then r else lookup1 t' a
  end.
Fixpoint lookup2 (t : list (v * v * v)) (a b : v) : v :=
  match t with
  | [] => VErr
  | (k1, k2, r) :: t' => if v_eqb k1 a && v_eqb k2 b then r else lookup2 t' a b
  end.

Fixpoint find_entry (k : str) (t : list dentry) : option dentry :=
  match t with
  | [] => None
  | e :: t' => if str_eqb (de_key e) k then Some e else find_entry k t'
  end.
