(* Shared vocabulary of the development: characters are code points (N), strings
   are lists of code points, plus the record types of the generated tables. *)
From Coq Require Import List NArith ZArith Bool.
Import ListNotations.
Open Scope N_scope.

Definition str := list N.

Fixpoint str_eqb (a b : str) : bool :=
  match a, b with
  | [], [] => true
  | x :: a', y :: b' => N.eqb x y && str_eqb a' b'
  | _, _ => false
  end.

Fixpoint mem (c : N) (s : str) : bool :=
  match s with
  | [] => false
  | x :: s' => N.eqb c x || mem c s'
  end.

Fixpoint mem_str (k : str) (l : list str) : bool :=
  match l with
  | [] => false
  | x :: l' => str_eqb k x || mem_str k l'
  end.

(* index of the first occurrence, as Python's str.find on a single character:
   None plays the role of -1 *)
Fixpoint find_index_from (c : N) (s : str) (i : N) : option N :=
  match s with
  | [] => None
  | x :: s' => if N.eqb c x then Some i else find_index_from c s' (i + 1)
  end.
Definition find_index (c : N) (s : str) : option N := find_index_from c s 0.

Fixpoint nodupb (l : list N) : bool :=
  match l with
  | [] => true
  | x :: l' => negb (mem x l') && nodupb l'
  end.

Fixpoint count_str (k : str) (l : list str) : nat :=
  match l with
  | [] => O
  | x :: l' => (if str_eqb k x then 1 else 0)%nat + count_str k l'
  end.

(* element table entry: key, arity, emitted Python text, backing function name
   ([] for a hand-written template), and static facts of the template computed by
   the translator with Python's own `ast`/`compile` *)
Record elem := {
  e_key : str; e_arity : Z; e_text : str; e_fn : str; e_hand : bool;
  e_compiles : bool; e_break : bool; e_continue : bool; e_return : bool }.

Record modif := {
  m_key : str; m_text : str;
  m_compiles : bool; m_break : bool; m_continue : bool; m_return : bool }.

(* one entry of documents/knowledge/elements.yaml *)
Record docentry := {
  d_key : str; d_modifier : bool; d_arity : option Z; d_vectorise : option bool }.

Lemma str_eqb_eq a b : str_eqb a b = true <-> a = b.
Proof.
  revert b; induction a as [|x a IH]; intros [|y b]; simpl; split; intro H;
    try reflexivity; try discriminate.
  - apply andb_true_iff in H as [H1 H2]. apply N.eqb_eq in H1. apply IH in H2. congruence.
  - inversion H; subst. rewrite N.eqb_refl. simpl. apply IH. reflexivity.
Qed.

Lemma mem_In c s : mem c s = true <-> In c s.
Proof.
  induction s as [|x s IH]; simpl; [split; [discriminate|tauto]|].
  rewrite orb_true_iff, N.eqb_eq, IH. split; intros [H|H]; auto.
Qed.

Lemma nodupb_NoDup l : nodupb l = true <-> NoDup l.
Proof.
  induction l as [|x l IH]; simpl.
  - split; [constructor | reflexivity].
  - rewrite andb_true_iff, negb_true_iff, IH. split.
    + intros [H1 H2]. constructor; [|assumption]. intro Hin. apply mem_In in Hin. congruence.
    + intro H. inversion H; subst. split; [|assumption].
      destruct (mem x l) eqn:E; [|reflexivity]. apply mem_In in E. contradiction.
Qed.
