(* Model of Vyxal's input streams (property C11): vyxal/context.py Context.inputs and
   use_top_input, vyxal/helpers.py get_input and the input fallback of pop, the `?`
   template of vyxal/elements.py, and the scope push / pop that the lambda and
   named-function templates of vyxal/transpile.py put around a body.
   Values are integers (the implementation stores arbitrary values; nothing in the
   anchored code looks at them).  No proofs here.

   Stated assumption (stdin is empty): `input()` raises EOFError, which the
   `except Exception` of get_input turns into 0 -- `stdin_value` below. *)
From Coq Require Import List ZArith Bool Arith.
Import ListNotations.

(* one entry of ctx.inputs: [values, cursor] *)
Definition scope := (list Z * nat)%type.

(* ctx.inputs (innermost scope LAST, as in the implementation) and ctx.use_top_input *)
Record state := mkState { scopes : list scope; use_top : bool }.

Definition stdin_value : Z := 0%Z.

Definition is_empty (l : list Z) : bool := match l with [] => true | _ => false end.

(* values[cursor % len(values)] ; cursor += 1 *)
Definition serve (sc : scope) : Z := nth (snd sc mod length (fst sc)) (fst sc) 0%Z.
Definition bump (sc : scope) : scope := (fst sc, S (snd sc)).

(* ctx.inputs[0] and ctx.inputs[-1]; the default only matters for the empty list of
   scopes, where Python raises IndexError -- excluded by well-scopedness below *)
Definition first_scope (l : list scope) : scope := hd ([], 0) l.
Definition last_scope (l : list scope) : scope := last l ([], 0).

Definition upd_first (f : scope -> scope) (l : list scope) : list scope :=
  match l with [] => [] | x :: r => f x :: r end.
Fixpoint upd_last (f : scope -> scope) (l : list scope) : list scope :=
  match l with
  | [] => []
  | x :: r => match r with [] => [f x] | _ :: _ => x :: upd_last f r end
  end.

Definition set_use_top (b : bool) (st : state) : state := mkState (scopes st) b.

(* helpers.get_input, the branch `if ctx.use_top_input:` *)
Definition get_top (st : state) : state * Z :=
  let sc := first_scope (scopes st) in
  if negb (is_empty (fst sc))                       (* if ctx.inputs[0][0]: *)
  then (mkState (upd_first bump (scopes st)) (use_top st), serve sc)
  else (st, stdin_value).                           (* vy_eval(input()) -> EOFError -> 0 *)

(* helpers.get_input.  The recursive call happens right after use_top_input was set,
   so it runs the first branch: it is `get_top` on the updated state. *)
Definition get_input (st : state) : state * Z :=
  if use_top st then get_top st
  else
    let sc := last_scope (scopes st) in
    if negb (is_empty (fst sc))                     (* if ctx.inputs[-1][0]: *)
    then (mkState (upd_last bump (scopes st)) (use_top st), serve sc)
    else if Nat.eqb (length (scopes st)) 1          (* if len(ctx.inputs) == 1: *)
    then let (st', temp) := get_top (set_use_top true st) in
         (set_use_top false st', temp)
    else (st, 0%Z).

(* helpers.pop(stack, k, ctx) with reverse_flag = retain_popped = false.  The stack is
   written top FIRST.  Result: state, remaining stack, popped_items in popping order
   (what the caller receives; for k = 1 the single item). *)
Fixpoint pop_n (st : state) (stack : list Z) (k : nat) : state * list Z * list Z :=
  match k with
  | O => (st, stack, [])
  | S k' =>
    match stack with
    | x :: r => let '(st', s', ps) := pop_n st r k' in (st', s', x :: ps)
    | [] => let (st1, temp) := get_input st in
            let '(st', s', ps) := pop_n st1 [] k' in (st', s', temp :: ps)
    end
  end.

(* the `?` template: ctx.use_top_input = True; lhs = get_input(ctx);
   ctx.use_top_input = False; stack.append(lhs) *)
Definition question_mark (st : state) (stack : list Z) : state * list Z :=
  let (st1, lhs) := get_input (set_use_top true st) in
  (set_use_top false st1, lhs :: stack).

(* Operations of a read history.
   Explicit     the `?` element (on an empty stack, so the stack afterwards is the value read)
   Implicit k   pop([], k, ctx): k values missing from the stack
   Enter args   ctx.inputs.append([list(deep_copy(stack))[::-1], 0]) of transpile_lambda and
                ctx.inputs.append([parameters[::-1], 0]) of the FunctionDef template, where
                args is the callee's initial stack / parameter list: the scope holds it REVERSED
   Exit         ctx.inputs.pop() *)
Inductive op := Explicit | Implicit (k : nat) | Enter (args : list Z) | Exit.

(* new state and the values read by the operation, in reading order *)
Definition step (st : state) (o : op) : state * list Z :=
  match o with
  | Explicit => question_mark st []
  | Implicit k => let '(st', _, popped) := pop_n st [] k in (st', popped)
  | Enter args => (mkState (scopes st ++ [(rev args, 0)]) (use_top st), [])
  | Exit => (mkState (removelast (scopes st)) (use_top st), [])
  end.

(* execute_vyxal: Context() has inputs = [[[], 0]]; then ctx.inputs[0][0] = inputs *)
Definition init (ins : list Z) : state := mkState [(ins, 0)] false.

(* ---- histories ------------------------------------------------------------------
   The nesting depth is computed from the history alone (1 = top level). *)
Definition next_depth (d : nat) (o : op) : nat :=
  match o with Enter _ => S d | Exit => pred d | _ => d end.

Record event := mkEvent { ev_depth : nat; ev_op : op; ev_vals : list Z }.
Record acc := mkAcc { r_state : state; r_depth : nat; r_events : list event }.

Definition run_step (a : acc) (o : op) : acc :=
  mkAcc (fst (step (r_state a) o))
        (next_depth (r_depth a) o)
        (r_events a ++ [mkEvent (r_depth a) o (snd (step (r_state a) o))]).

Definition run_from (st : state) (d : nat) (h : list op) : acc :=
  fold_left run_step h (mkAcc st d []).
Definition run (ins : list Z) (h : list op) : acc := run_from (init ins) 1 h.

(* ---- vocabulary of the property ---------------------------------------------------
   An Exit is legal above base depth b when the current depth exceeds b; a history is
   well scoped when it never executes Exit at depth 1 (it never pops the program's own
   input scope). *)
Definition legal (b d : nat) (o : op) : bool :=
  match o with Exit => Nat.ltb b d | _ => true end.
Fixpoint scopedb (b d : nat) (h : list op) : bool :=
  match h with
  | [] => true
  | o :: r => legal b d o && scopedb b (next_depth d o) r
  end.
Definition well_scoped (h : list op) : Prop := scopedb 1 1 h = true.
Definition depth_from (d : nat) (h : list op) : nat := fold_left next_depth h d.

(* reads that the property assigns to the program's inputs: every explicit read, and
   implicit reads at top level *)
Definition top_served (d : nat) (o : op) : bool :=
  match o with Explicit => true | Implicit _ => Nat.eqb d 1 | _ => false end.
Definition top_vals (evs : list event) : list Z :=
  flat_map (fun e => if top_served (ev_depth e) (ev_op e) then ev_vals e else []) evs.

(* implicit reads executed at depth d *)
Definition in_scope (d : nat) (e : event) : bool :=
  match ev_op e with Implicit _ => Nat.eqb (ev_depth e) d | _ => false end.
Definition scope_vals (d : nat) (evs : list event) : list Z :=
  flat_map (fun e => if in_scope d e then ev_vals e else []) evs.

(* the cyclic stream over l from position c, n values (all 0 when l is empty) *)
Definition cyc (l : list Z) (c n : nat) : list Z :=
  map (fun j => nth (j mod length l) l 0%Z) (seq c n).

Definition reads_of (o : op) : nat :=
  match o with Explicit => 1 | Implicit k => k | _ => 0 end.

(* ---- comparison helpers for the correspondence check ------------------------------ *)
Fixpoint zlist_eqb (a b : list Z) : bool :=
  match a, b with
  | [], [] => true
  | x :: a', y :: b' => Z.eqb x y && zlist_eqb a' b'
  | _, _ => false
  end.
Fixpoint zlists_eqb (a b : list (list Z)) : bool :=
  match a, b with
  | [], [] => true
  | x :: a', y :: b' => zlist_eqb x y && zlists_eqb a' b'
  | _, _ => false
  end.
Fixpoint scopes_eqb (a b : list scope) : bool :=
  match a, b with
  | [], [] => true
  | (l, c) :: a', (m, d) :: b' => zlist_eqb l m && Nat.eqb c d && scopes_eqb a' b'
  | _, _ => false
  end.

(* a correspondence case: inputs, the history with the values the implementation read
   at every operation, the implementation's final ctx.inputs and ctx.use_top_input *)
Definition agrees (c : list Z * list (op * list Z) * list scope * bool) : bool :=
  let '(ins, evs, fin, ut) := c in
  let a := run ins (map fst evs) in
  zlists_eqb (map ev_vals (r_events a)) (map snd evs)
  && scopes_eqb (scopes (r_state a)) fin
  && Bool.eqb (use_top (r_state a)) ut.
