(* Model of vyxal/transpile.py: the Python TEXT that `transpile` returns, mirrored
   function by function (transpile_token, transpile_structure, transpile_lambda,
   lambda_wrap, transpile_ast) together with helpers.indent_str.  Element and modifier
   template texts and arities come from Gen/Elements.v (regenerated from elements.py);
   the sanitising character classes from Gen/ParserConsts.v (read from the re.sub calls).
   Random ids (secrets.token_hex) are replaced by two counters, numbered in the order the
   Python code draws them; the harness renames the ids in the implementation's output by
   first appearance, which is the same order.

   Scope of exactness (stated, not hidden): program-derived text is assumed to contain
   no line-boundary character other than "\n" (true of every code-page character), and
   dictionary decompression of back-quoted strings is a parameter (`undict`).
   No proofs in this file. *)
From Coq Require Import List NArith ZArith Bool String Ascii.
From Vy Require Import Model.Base Model.Lexer Model.Parser Gen.ParserConsts Gen.Codepage Gen.Elements.
Import ListNotations.
Open Scope N_scope.

Definition L (s : string) : str := map N_of_ascii (list_ascii_of_string s).

Definition nl : N := 10.

(* ---- helpers.indent_str ------------------------------------------------------------ *)
Fixpoint spaces (n : nat) : str :=
  match n with O => [] | S k => 32 :: 32 :: 32 :: 32 :: spaces k end.

(* `line.strip()` is empty: only whitespace (of the code page only space and newline are) *)
Definition is_ws (c : N) : bool := mem c [32; 9; 10; 11; 12; 13; 28; 29; 30; 31; 133; 160].
Definition ws_only (s : str) : bool := forallb is_ws s.

(* textwrap.indent(text, "    " * indent) + "\n", for texts whose only line boundary is "\n" *)
Definition indent_str (text : str) (indent : nat) : str :=
  flat_map (fun line => (if ws_only line then line else spaces indent ++ line) ++ [nl])
           (split_on nl text []).

(* ---- numbers as text ---------------------------------------------------------------- *)
Fixpoint N_digits (fuel : nat) (n : N) (acc : str) : str :=
  match fuel with
  | O => acc
  | S f => let acc' := (48 + n mod 10) :: acc in
           if n / 10 =? 0 then acc' else N_digits f (n / 10) acc'
  end.
Definition N_to_dec (n : N) : str := N_digits (S (N.size_nat n)) n [].
Definition Z_to_dec (z : Z) : str :=
  match z with
  | Z0 => [48]
  | Zpos p => N_to_dec (Npos p)
  | Zneg p => 45 :: N_to_dec (Npos p)
  end.

(* ---- helpers.uncompress for compressed numbers and strings --------------------------- *)
Definition find_or_minus1 (c : N) (alphabet : str) : Z :=
  match find_index c alphabet with Some i => Z.of_N i | None => (-1)%Z end.

Definition from_base_alphabet (value alphabet : str) : Z :=
  fold_left (fun acc d => (Z.of_nat (List.length alphabet) * acc + find_or_minus1 d alphabet)%Z) value 0%Z.

Fixpoint to_base_digits_N (fuel : nat) (n base : N) (acc : list N) : list N :=
  match fuel with
  | O => n :: acc
  | S f => if n <? base then n :: acc else to_base_digits_N f (n / base) base (n mod base :: acc)
  end.

Fixpoint mapM_opt {A B} (f : A -> option B) (l : list A) : option (list B) :=
  match l with
  | [] => Some []
  | x :: r => match f x, mapM_opt f r with Some y, Some ys => Some (y :: ys) | _, _ => None end
  end.

(* to_base_alphabet; None = the value is negative (only reachable from characters that
   are not in the alphabet, i.e. outside the code page) *)
Definition to_base_alphabet (value : Z) (alphabet : str) : option str :=
  match value with
  | Zneg _ => None
  | _ =>
      let b := N.of_nat (List.length alphabet) in
      let ds := to_base_digits_N (S (N.size_nat (Z.to_N value))) (Z.to_N value) b [] in
      mapM_opt (fun d => nth_error alphabet (N.to_nat d)) ds
  end.

Definition uncompress_num (payload : str) : Z := from_base_alphabet payload codepage_number_compress.
Definition uncompress_str (payload : str) : option str :=
  to_base_alphabet (from_base_alphabet payload codepage_string_compress) base_27_alphabet.

(* repr() of a str made of characters whose repr is themselves (letters, space): 'text' *)
Definition plain_repr_char (c : N) : bool :=
  (32 <=? c) && (c <=? 126) && negb (N.eqb c 39) && negb (N.eqb c 92).
Definition py_repr_plain (s : str) : option str :=
  if forallb plain_repr_char s then Some ([39] ++ s ++ [39]) else None.

(* repr() of a one-character string: table computed by the translator with Python's own
   repr for every code-page character *)
Fixpoint assoc_N {A} (c : N) (tbl : list (N * A)) : option A :=
  match tbl with
  | [] => None
  | (k, v) :: r => if N.eqb k c then Some v else assoc_N c r
  end.
Definition py_repr_char (c : N) : option str := assoc_N c char_reprs.

(* ---- tables --------------------------------------------------------------------------- *)
(* dict display semantics: the LAST entry with a key wins *)
Fixpoint find_elem_in (k : str) (tbl : list elem) : option elem :=
  match tbl with
  | [] => None
  | e :: r => if str_eqb (e_key e) k then Some e else find_elem_in k r
  end.
Definition find_elem (k : str) : option elem := find_elem_in k (rev elements).
Fixpoint find_modif_in (k : str) (tbl : list modif) : option modif :=
  match tbl with
  | [] => None
  | m :: r => if str_eqb (m_key m) k then Some m else find_modif_in k r
  end.
Definition find_modif (k : str) : option modif := find_modif_in k (rev modifiers).

Definition element_text (k : str) : str :=
  match find_elem k with Some e => e_text e | None => L "pass" ++ [nl] end.
Definition element_arity_or (k : str) (dflt : Z) : Z :=
  match find_elem k with Some e => e_arity e | None => dflt end.
Definition modifier_text (m : N) : str :=
  match find_modif [m] with Some x => m_text x | None => L "pass" end.

Definition keep (allowed : str) (s : str) : str := filter (fun c => mem c allowed) s.

(* ---- transpile_token -------------------------------------------------------------------- *)
(* the manual re-escaping loop of the STRING branch *)
Fixpoint escape_string (s : str) : str :=
  match s with
  | [] => []
  | c :: r =>
      if N.eqb c 92 then
        match r with
        | [] => [92; 92]                               (* a lone trailing backslash is escaped *)
        | a :: r' => if N.eqb a 96 then 96 :: escape_string r' else 92 :: a :: escape_string r'
        end
      else if N.eqb c 34 then 92 :: 34 :: escape_string r
      else if N.eqb c nl then 92 :: 110 :: escape_string r
      else if N.eqb c 13 then 92 :: 114 :: escape_string r     (* a raw carriage return would end the line *)
      else c :: escape_string r
  end.

Fixpoint join_with (sep : str) (parts : list str) : str :=
  match parts with
  | [] => []
  | [p] => p
  | p :: r => p ++ sep ++ join_with sep r
  end.

Definition number_text (v : str) : str :=
  let parts := map (fun p => if str_eqb p [46] then L "0.5" else p) (split_on 176 v []) in
  match parts with
  | [p] =>
      if mem 46 p then L "stack.append(sympy.Rational(""" ++ p ++ L """))"
      else L "stack.append(sympy.nsimplify(""" ++ p ++ L """))"
  | _ =>
      let j := join_with [43] parts in
      let j' :=
        match j with
        | 43 :: _ => j ++ L "I"
        | _ => if N.eqb (last j 0) 43 then j ++ L "1 * I"
               else if mem 43 j then j ++ L "* I" else j
        end in
      L "stack.append(sympy.nsimplify(""" ++ j' ++ L """))"
  end.

Inductive terr := TValue | TRepr.   (* ValueError from int(); a repr outside the modelled range *)
Inductive tres (A : Type) := TOk (x : A) | TErr (e : terr).
Arguments TOk {A}. Arguments TErr {A}.

Section WithDict.
  (* helpers.uncompress_dict when dictionary compression is on, identity when off *)
  Variable undict : str -> str.

  Definition token_text (t : token) : tres str :=
    match tk t with
    | KString => TOk (L "stack.append(""" ++ escape_string (undict (tv t)) ++ L """)")
    | KNumber => TOk (number_text (tv t))
    | KGeneral => TOk (element_text (tv t))
    | KCompNumber => TOk (L "stack.append(" ++ Z_to_dec (uncompress_num (tv t)) ++ L ")")
    | KCompString =>
        match uncompress_str (tv t) with
        | Some s => match py_repr_plain s with
                    | Some r => TOk (L "stack.append(" ++ r ++ L ")")
                    | None => TErr TRepr
                    end
        | None => TErr TRepr
        end
    | KVarGet =>
        match tv t with
        | [] => TOk (L "stack.append(ctx.ghost_variable)")
        | 95 :: _ => TOk (L "stack.append(ctx.VAR_" ++ tv t ++ L ")")
        | _ => TOk (L "stack.append(VAR_" ++ tv t ++ L ");")
        end
    | KVarSet =>
        match tv t with
        | [] => TOk (L "ctx.ghost_variable = pop(stack, 1, ctx=ctx)")
        | 95 :: _ => TOk (L "ctx.VAR_" ++ tv t ++ L " = pop(stack, 1, ctx)")
        | _ => TOk (L "VAR_" ++ tv t ++ L " = pop(stack, 1, ctx=ctx)")
        end
    | KCpNumber =>
        match tv t with
        | [c] => TOk (L "stack.append(" ++ Z_to_dec (find_or_minus1 c codepage + 101) ++ L ")")
        | _ => TErr TRepr
        end
    | KCharacter =>
        match tv t with
        | [c] => match py_repr_char c with
                 | Some r => TOk (L "stack.append(" ++ r ++ L ")")
                 | None => TErr TRepr
                 end
        | _ => TErr TRepr
        end
    end.

  Definition transpile_token (t : token) (indent : nat) : tres str :=
    match token_text t with TOk s => TOk (indent_str s indent) | TErr e => TErr e end.

  (* ---- lambda_wrap ------------------------------------------------------------------------ *)
  Definition niladic_kind (k : tkind) : bool :=
    match k with
    | KString | KNumber | KCompNumber | KCompString | KVarGet | KCpNumber => true
    | _ => false
    end.

  (* returns (arity, body); arity None = "default" *)
  Definition lambda_wrap1 (s : struct) : option Z * list struct :=
    match s with
    | SGeneric t =>
        if niladic_kind (tk t) then (Some 0%Z, [s])
        else (Some (element_arity_or (tv t) 1%Z), [s])
    | SLambda a b => (a, b)
    | _ => (Some 1%Z, [s])
    end.

  (* ---- transpile_structure / transpile_lambda / transpile_ast ---------------------------------
     state: (next lambda id, next loop id) *)
  Definition st := (nat * nat)%type.
  Definition bindT {A B} (r : tres A) (f : A -> tres B) : tres B :=
    match r with TOk x => f x | TErr e => TErr e end.

  Definition lambda_name (id : nat) : str := L "_lambda_" ++ N_to_dec (N.of_nat id).
  Definition arity_text (a : option Z) : str :=
    match a with Some z => Z_to_dec z | None => L "ctx.default_arity" end.

  Definition all_ascii_digits (s : str) : bool :=
    match s with [] => false | _ => forallb is_digit s end.
  Fixpoint dec_value (s : str) (acc : N) : N :=
    match s with [] => acc | c :: r => dec_value r (acc * 10 + (c - 48)) end.

  (* the text accumulated in `function_parameters` *)
  Fixpoint params_text (ps : list str) : tres str :=
    match ps with
    | [] => TOk []
    | p :: r =>
        bindT (if is_numeric p then
                 (if all_ascii_digits p
                  then TOk (L "parameters += wrapify(arg_stack, " ++ N_to_dec (dec_value p 0) ++ L ", ctx)" ++ [nl])
                  else TErr TValue)
               else if str_eqb p [42] then
                 TOk (L "parameters += wrapify(arg_stack, pop(arg_stack, 1, ctx=ctx), ctx=ctx)" ++ [nl])
               else TOk (L "VAR_" ++ keep re_keep_fnparam p ++ L " =pop(arg_stack, 1, ctx=ctx)" ++ [nl]))
              (fun line => bindT (params_text r) (fun rest => TOk (line ++ rest)))
    end.

  Definition break_text (p : option pkind) (indent : nat) : str :=
    match p with
    | Some PFor | Some PWhile =>
        indent_str (L "ctx.context_values.pop()") indent ++ indent_str (L "break") indent
    | Some PLambda =>
        indent_str (L "ret = [pop(stack, 1, ctx=ctx)]") indent
        ++ indent_str (L "ctx.context_values.pop()") indent
        ++ indent_str (L "ctx.inputs.pop()") indent
        ++ indent_str (L "ctx.stacks.pop()") indent
        ++ indent_str (L "ctx.function_stack.pop()") indent
        ++ indent_str (L "return ret") indent
    | _ => indent_str (L "pass") indent       (* IfStatement and every other class; FunctionDef is never a parent *)
    end.

  Definition recurse_text (p : option pkind) (indent : nat) : str :=
    match p with
    | Some PIf => indent_str (L "pass") indent
    | Some PFor | Some PWhile =>
        indent_str (L "ctx.context_values.pop()") indent ++ indent_str (L "continue") indent
    | Some PLambda => indent_str (L "stack += this(stack, this, ctx=ctx)") indent
    | Some PMonadic | Some PDyadic | Some PTriadic =>
        indent_str (L "stack += ctx.function_stack[-2](stack, ctx.function_stack[-2], ctx=ctx)" ++ [nl]) indent
    | _ => indent_str (L "vy_print(stack, ctx=ctx)") indent
    end.

  Definition lamop_key (o : lamop) : str :=
    match o with OpMap => [77] | OpFilter => [70] | OpSort => [7777] end.   (* M F ṡ *)

  Fixpoint tr (s : struct) (indent : nat) (c : st) {struct s} : tres (str * st) :=
    (* transpile_ast *)
    let tr_list := fix tr_list (l : list struct) (indent : nat) (c : st) {struct l} : tres (str * st) :=
      match l with
      | [] => TOk ([], c)
      | [x] => tr x indent c
      | x :: r => bindT (tr x indent c) (fun '(a, c1) =>
                  bindT (tr_list r indent c1) (fun '(b, c2) => TOk (a ++ [nl] ++ b, c2)))
      end in
    let ast := fun (l : list struct) (indent : nat) (c : st) =>
      match l with
      | [] => TOk (indent_str (L "pass") indent, c)
      | _ => tr_list l indent c
      end in
    (* transpile_lambda on (arity, body) *)
    let lam_with := fun (a : option Z) (body : st -> tres (str * st)) (indent : nat) (c : st) =>
      let id := fst c in
      let name := lambda_name id in
      bindT (body (S id, snd c)) (fun '(b, c1) =>
      TOk (indent_str (L "def " ++ name ++ L "(arg_stack, self, arity=-1, ctx=None):") indent
           ++ indent_str (L "if arity != -1: stack = wrapify(arg_stack, arity, ctx=ctx)") (S indent)
           ++ indent_str (L "elif 'stored_arity' in dir(self): stack = wrapify(arg_stack, self.stored_arity, ctx)") (S indent)
           ++ indent_str (L "else: stack = wrapify(arg_stack, " ++ arity_text a ++ L ", ctx)") (S indent)
           ++ indent_str (L "this = self") (S indent)
           ++ indent_str (L "ctx.function_stack.append(this)") (S indent)
           ++ indent_str (L "ctx.context_values.append(list(deep_copy(stack)) if len(stack) != 1 else deep_copy(stack[0]))") (S indent)
           ++ indent_str (L "ctx.inputs.append([list(deep_copy(stack))[::-1], 0]);") (S indent)
           ++ indent_str (L "ctx.stacks.append(stack);") (S indent)
           ++ indent_str b (S indent)
           ++ indent_str (L "res = [pop(stack, 1, ctx)]") (S indent)
           ++ indent_str (L "ctx.context_values.pop()") (S indent)
           ++ indent_str (L "ctx.inputs.pop()") (S indent)
           ++ indent_str (L "ctx.stacks.pop()") (S indent)
           ++ indent_str (L "ctx.function_stack.pop()") (S indent)
           ++ indent_str (L "return res") (S indent)
           ++ indent_str (name ++ L ".arity = " ++ arity_text a) indent
           ++ indent_str (L "stack.append(" ++ name ++ L ")") indent, c1)) in
    let lam := fun (a : option Z) (body : list struct) (indent : nat) (c : st) =>
      lam_with a (ast body 0%nat) indent c in
    (* the items of a list literal *)
    let items := fix items (l : list (list struct)) (indent : nat) (c : st) {struct l} : tres (str * st) :=
      match l with
      | [] => TOk ([], c)
      | x :: r =>
          bindT (ast x (S indent) c) (fun '(b, c1) =>
          bindT (items r indent c1) (fun '(rest, c2) =>
          TOk (indent_str (L "def list_item(s, ctx):") indent
               ++ indent_str (L "stack = list(deep_copy(s))") (S indent)
               ++ b
               ++ indent_str (L "if len(stack) == 0: return") (S indent)
               ++ indent_str (L "return pop(stack, 1, ctx=ctx)") (S indent)
               ++ indent_str (L "f = list_item(stack, ctx)") indent
               ++ indent_str (L "if f is not None: temp_list.append(f)") indent
               ++ rest, c2)))
      end in
    (* the branches of an if statement from index i on (Python: for i in range(-1, n-1, 2)) *)
    let ifs := fix ifs (bs : list (list struct)) (first : bool) (new_indent : nat) (c : st) {struct bs}
                 : tres (str * st) :=
      match bs with
      | [] => TOk ([], c)
      | [body] =>
          if first then
            bindT (ast body (S new_indent) c) (fun '(b, c1) =>
            TOk (indent_str (L "condition = pop(stack, 1, ctx=ctx)") new_indent
                 ++ indent_str (L "if boolify(condition, ctx):") new_indent ++ b, c1))
          else
            (* a trailing else body *)
            bindT (ast body (S new_indent) c) (fun '(b, c1) =>
            TOk (indent_str (L "else:") new_indent ++ b, c1))
      | x :: ((y :: rest) as tl) =>
          if first then
            (* x is the truthy body; y starts the next round *)
            bindT (ast x (S new_indent) c) (fun '(b, c1) =>
            bindT (ifs tl false new_indent c1) (fun '(more, c2) =>
            TOk (indent_str (L "condition = pop(stack, 1, ctx=ctx)") new_indent
                 ++ indent_str (L "if boolify(condition, ctx):") new_indent ++ b ++ more, c2)))
          else
            (* x is a condition branch, y its body *)
            bindT (ast x (S new_indent) c) (fun '(cond, c1) =>
            bindT (ast y (S (S new_indent)) c1) (fun '(b, c2) =>
            bindT (ifs rest false (S new_indent) c2) (fun '(more, c3) =>
            TOk (indent_str (L "else:") new_indent ++ cond
                 ++ indent_str (L "condition = pop(stack, 1, ctx=ctx)") (S new_indent)
                 ++ indent_str (L "if boolify(condition, ctx):") (S new_indent) ++ b ++ more, c3))))
      end in
    (* lambda_wrap([x]) then transpile_lambda: a lambda operand is used as it is, any
       other operand becomes the one-statement body of a new lambda *)
    let wrapped := fun (x : struct) (indent : nat) (c : st) =>
      match x with
      | SLambda a body => lam a body indent c
      | _ => lam_with (fst (lambda_wrap1 x)) (tr x 0%nat) indent c
      end in
    match s with
    | SGeneric t => bindT (transpile_token t indent) (fun x => TOk (x, c))
    | SIf bs => ifs bs true indent c
    | SFor names body =>
        let '(raw, c0) := match names with
                          | n :: _ => (n, c)
                          | [] => (L "LOOP" ++ N_to_dec (N.of_nat (snd c)), (fst c, S (snd c)))
                          end in
        let v := keep re_keep_for raw in
        let var := match v with [] => L "ctx.ghost_variable" | _ => L "VAR_" ++ v end in
        bindT (ast body (S indent) c0) (fun '(b, c1) =>
        TOk (indent_str (L "for " ++ var ++ L " in iterable(pop(stack, 1, ctx=ctx), range, ctx):") indent
             ++ indent_str (L "    ctx.context_values.append(" ++ var ++ L ")") indent
             ++ b
             ++ indent_str (L "    ctx.context_values.pop()") indent, c1))
    | SWhile cond body =>
        bindT (ast cond indent c) (fun '(c_a, c1) =>
        bindT (ast body (S indent) c1) (fun '(b, c2) =>
        bindT (ast cond (S indent) c2) (fun '(c_b, c3) =>
        TOk (c_a
             ++ indent_str (L "condition = pop(stack, 1, ctx=ctx)") indent
             ++ indent_str (L "while boolify(condition, ctx):") indent
             ++ indent_str (L "    ctx.context_values.append(condition)") indent
             ++ b
             ++ indent_str (L "    ctx.context_values.pop()") indent
             ++ c_b
             ++ indent_str (L "    condition = pop(stack, 1, ctx=ctx)") indent, c3))))
    | SFnCall name =>
        TOk (indent_str (L "stack += VAR_" ++ keep re_keep_fncall name ++ L "(stack, self=None, ctx=ctx)") indent, c)
    | SFnDef name params body =>
        let var := keep re_keep_fndef name in
        bindT (params_text params) (fun ptext =>
        bindT (ast body 0%nat c) (fun '(b, c1) =>
        TOk (indent_str (L "def VAR_" ++ var ++ L "(arg_stack, self, arity=-1, ctx=None):") indent
             ++ indent_str (L "parameters = []") (S indent)
             ++ indent_str ptext (S indent)
             ++ indent_str (L "stack = parameters[::]") (S indent)
             ++ indent_str (L "ctx.context_values.append(parameters[::])") (S indent)
             ++ indent_str (L "ctx.stacks.append(stack)") (S indent)
             ++ indent_str (L "ctx.inputs.append([parameters[::-1], 0])") (S indent)
             ++ indent_str (L "this = VAR_" ++ var) (S indent)
             ++ indent_str b (S indent)
             ++ indent_str (L "ctx.context_values.pop()") (S indent)
             ++ indent_str (L "ctx.inputs.pop()") (S indent)
             ++ indent_str (L "ctx.stacks.pop()") (S indent)
             ++ indent_str (L "return stack") (S indent), c1)))
    | SLambda a body => lam a body indent c
    | SLamOp o body =>
        bindT (lam (Some 1%Z) body indent c) (fun '(x, c1) =>
        TOk (x ++ indent_str (element_text (lamop_key o)) indent, c1))
    | SList its =>
        bindT (items its indent c) (fun '(x, c1) =>
        TOk (indent_str (L "temp_list = []") indent ++ x
             ++ indent_str (L "stack.append(list(deep_copy(temp_list)))") indent, c1))
    | SMod1 m a =>
        bindT (wrapped a indent c) (fun '(ea, c1) =>
        TOk (ea ++ [nl] ++ indent_str (L "function_A = pop(stack, 1, ctx)") indent
             ++ indent_str (modifier_text m) indent, c1))
    | SMod2 m a b =>
        bindT (wrapped a indent c) (fun '(ea, c1) =>
        bindT (wrapped b indent c1) (fun '(eb, c2) =>
        TOk (ea ++ [nl] ++ indent_str (L "function_A = pop(stack, 1, ctx)") indent
             ++ eb ++ [nl] ++ indent_str (L "function_B = pop(stack, 1, ctx)") indent
             ++ indent_str (modifier_text m) indent, c2)))
    | SMod3 m a b d =>
        bindT (wrapped a indent c) (fun '(ea, c1) =>
        bindT (wrapped b indent c1) (fun '(eb, c2) =>
        bindT (wrapped d indent c2) (fun '(ed, c3) =>
        TOk (ea ++ [nl] ++ indent_str (L "function_A = pop(stack, 1, ctx)") indent
             ++ eb ++ [nl] ++ indent_str (L "function_B = pop(stack, 1, ctx)") indent
             ++ ed ++ [nl] ++ indent_str (L "function_C = pop(stack, 1, ctx)") indent
             ++ indent_str (modifier_text m) indent, c3))))
    | SBreak p => TOk (break_text p indent, c)
    | SRecurse p => TOk (recurse_text p indent, c)
    end.

  Fixpoint tr_list (l : list struct) (indent : nat) (c : st) : tres (str * st) :=
    match l with
    | [] => TOk ([], c)
    | [x] => tr x indent c
    | x :: r => bindT (tr x indent c) (fun '(a, c1) =>
                bindT (tr_list r indent c1) (fun '(b, c2) => TOk (a ++ [nl] ++ b, c2)))
    end.

  Definition transpile_ast (l : list struct) : tres str :=
    match l with
    | [] => TOk (indent_str (L "pass") 0)
    | _ => match tr_list l 0%nat (0%nat, 0%nat) with TOk (x, _) => TOk x | TErr e => TErr e end
    end.
End WithDict.

(* transpile(program, dict_compress=False): lexer + parser + transpiler.
   Outcome: text | parse error | transpile error *)
Inductive outcome := OText (s : str) | OParseErr (e : perr) | OTranspileErr (e : terr) | OFuel.

Definition transpile_nodict (src : str) : outcome :=
  match parse_source src with
  | Ok l => match transpile_ast (fun s => s) l with TOk x => OText x | TErr e => OTranspileErr e end
  | Err e => OParseErr e
  | OutOfFuel => OFuel
  end.
