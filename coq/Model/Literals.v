(* Plain numeric literals (C05): the digit-string predicates of the property, the value
   a literal spells (`dec_value` = digits / 10^k, as fractions.Fraction reads the text),
   and the evaluation of the one-line Python text that transpile_token emits for a NUMBER
   token, relative to the two sympy conversions it calls (section variables: sympy itself
   is outside the model).

   No proofs in this file. *)
From Coq Require Import List NArith ZArith QArith Bool String Ascii.
From Vy Require Import Model.Base Model.Lexer Model.Parser Model.Transpile.
Import ListNotations.
Open Scope N_scope.


(* ---- digit strings ------------------------------------------------------------------ *)
Definition all_digits (s : str) : bool := forallb is_digit s.

Definition is_nil {A} (l : list A) : bool := match l with [] => true | _ => false end.

(* the integer part of a literal as the property reads it: a non-empty ASCII digit
   string without a leading zero, or the single digit 0 *)
Definition int_lit (d : str) : bool :=
  match d with
  | [] => false
  | c :: r => is_digit c && all_digits r && (negb (N.eqb c 48) || is_nil r)
  end.

(* what may follow an integer literal so that it is a token of its own: the end of the
   program or a character that cannot continue a number *)
Definition ends_integer (rest : str) : bool :=
  match rest with
  | [] => true
  | c :: _ => negb (is_digit c) && negb (N.eqb c 46) && negb (N.eqb c 176)
  end.

(* after a literal that already has its decimal point, a further "." also ends it *)
Definition ends_decimal (rest : str) : bool :=
  match rest with
  | [] => true
  | c :: _ => negb (is_digit c) && negb (N.eqb c 176)
  end.

(* after a lone 0 anything but "." and "°" *)
Definition ends_zero (rest : str) : bool :=
  match rest with
  | [] => true
  | c :: _ => negb (N.eqb c 46) && negb (N.eqb c 176)
  end.

(* ---- the number a literal spells ------------------------------------------------------ *)
Fixpoint digits_Z (s : str) (acc : Z) : Z :=
  match s with
  | [] => acc
  | c :: r => digits_Z r (acc * 10 + Z.of_N (c - 48))%Z
  end.
Definition Z_of_digits (s : str) : Z := digits_Z s 0%Z.

Fixpoint pow10 (n : nat) : positive :=
  match n with O => 1%positive | S k => (10 * pow10 k)%positive end.

(* text before the first "." and, if there is one, the text after it *)
Fixpoint split_at_dot (s : str) : str * option str :=
  match s with
  | [] => ([], None)
  | c :: r =>
      if N.eqb c 46 then ([], Some r)
      else let '(a, b) := split_at_dot r in (c :: a, b)
  end.

(* digits with at most one decimal point and at least one digit: digits / 10^k.
   Everything else (a second point, "°", no digit at all, other characters) is None. *)
Definition dec_value (s : str) : option Q :=
  match split_at_dot s with
  | (d, None) =>
      if all_digits d && negb (is_nil d) then Some (Z_of_digits d # 1) else None
  | (d, Some f) =>
      if all_digits d && all_digits f && negb (is_nil (d ++ f))
      then Some (Z_of_digits (d ++ f) # pow10 (List.length f)) else None
  end.

(* ---- evaluating the emitted statement ---------------------------------------------------- *)
Fixpoint strip_prefix (p s : str) : option str :=
  match p, s with
  | [], _ => Some s
  | a :: p', b :: s' => if N.eqb a b then strip_prefix p' s' else None
  | _ :: _, [] => None
  end.

Definition strip_suffix (q s : str) : option str :=
  match strip_prefix (rev q) (rev s) with Some r => Some (rev r) | None => None end.

Section Value.
  (* sympy.Rational("<text>") and sympy.nsimplify("<text>") as partial functions into Q *)
  Variable sym_rational : str -> option Q.
  Variable sym_nsimplify : str -> option Q.

  (* the value appended to the stack by one of the two statement shapes that number_text
     produces for a literal without "°"; None for any other text *)
  Definition eval_push (text : str) : option Q :=
    match strip_prefix (L "stack.append(sympy.Rational(""") text with
    | Some r =>
        match strip_suffix (L """))") r with Some a => sym_rational a | None => None end
    | None =>
        match strip_prefix (L "stack.append(sympy.nsimplify(""") text with
        | Some r =>
            match strip_suffix (L """))") r with Some a => sym_nsimplify a | None => None end
        | None => None
        end
    end.

  Definition literal_value (lit : str) : option Q := eval_push (number_text lit).
End Value.
