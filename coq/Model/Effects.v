(* Model for property C10 (values are immutable).  No proofs here.

   Part 1 - the mutation summary.  tools/gen_mutation.py emits, for every function of
   vyxal/elements.py, helpers.py and every method of LazyList, one node per (function,
   parameter): `mn_direct` = the body has a mutation site (subscript / attribute store,
   in-place `+=`, .append/.pop/..., random.shuffle, ...) on a name that may alias that
   parameter or an object reachable from it; `mn_calls` = the nodes (callee, position) that
   receive such an alias.  `may_mutate` is the least fixed point of
       flagged v  <->  mn_direct v  \/  exists w in mn_calls v, flagged w
   computed by bounded iteration (fuel = number of nodes + 1, with early exit).
   The summary semantics of a call: `exec` trees - what happens to ONE tracked object bound
   to parameter `mn_pos` of function `mn_fn`: some direct mutation events in the body and
   any number of calls that pass it on, in any order, to any depth.

   Part 2 - a heap semantics of the duplicating templates `:` and `D`
   (`stack.append(deep_copy(top))`): values are references; an eager list is a mutable
   object of the store; deep_copy of an eager list is LazyList(itertools.tee(l)[-1]), a
   lazy cell reading the SAME list object through a list iterator (position, exhausted
   flag); deep_copy of a lazy list is the View cell of Model/LazyList.v (reused as is).
   Non-mutating operations: every observation of C13 on a lazy cell or on a copy cell,
   reads of eager lists, further duplications.  Mutating operations - the in-place
   primitives Python offers on these objects: `l[i] = v` on an eager list, `l.append(x)`,
   LazyList.__setitem__ (`self.generated[position] = value`).  Which code uses them on an
   object another reference can read is the business of part 1 and of the oracle: since
   /repo 04249bb the elements Ȧ ¨M Ḟ work on copies; the templates ⅛ and ¼ append to / pop
   from ctx.global_array in place, which is why ¾ must push a materialised copy of it
   (ctx_pushes_ok below, on facts the translator reads off the templates). *)
From Coq Require Import List NArith ZArith Bool Arith.
From Vy Require Import Model.Base Model.LazyList.
Import ListNotations.

(* ================= Part 1: mutation summary ================= *)
Open Scope nat_scope.
Record mnode := { mn_fn : str; mn_pos : N; mn_direct : bool; mn_calls : list N }.

(* one element / modifier template: mutation sites of the template text itself on a value
   taken from the stack (or on a function operand), nodes receiving such a value; the same
   for the context (ctx.global_array / ctx.register / ctx.inputs ... in place) *)
Record mtempl := { mt_key : str; mt_fn : str; mt_direct : bool; mt_calls : list N;
                   mt_ctx_direct : bool; mt_ctx_calls : list N }.

(* a push of a context attribute as a whole: which template, which attribute, and whether the
   pushed value is made eagerly at push time (list(...) / tuple(...) / sorted(...)) *)
Record cpush := { cp_key : str; cp_attr : str; cp_materialised : bool }.

(* every attribute whose object is changed in place by some template or function must be
   pushed materialised: a bare push shares the object, deep_copy alone is a lazy view of it *)
Definition ctx_pushes_ok (inplace : list str) (ps : list cpush) : bool :=
  forallb (fun p => negb (mem_str (cp_attr p) inplace) || cp_materialised p) ps.

(* how a template pushes (the copy-on-duplicate mechanism): pushes of a bare name, pushes
   wrapped in deep_copy *)
Record dtempl := { dt_key : str; dt_bare : N; dt_copied : N }.

Definition flags := list bool.
Definition flag_at (s : flags) (j : N) : bool := nth (N.to_nat j) s false.

Definition node_step (s : flags) (nd : mnode) : bool :=
  mn_direct nd || existsb (flag_at s) (mn_calls nd).
Definition mstep (nodes : list mnode) (s : flags) : flags := map (node_step s) nodes.

Fixpoint flags_eqb (a b : flags) : bool :=
  match a, b with
  | [], [] => true
  | x :: a', y :: b' => Bool.eqb x y && flags_eqb a' b'
  | _, _ => false
  end.

Fixpoint miter (fuel : nat) (nodes : list mnode) (s : flags) : flags :=
  match fuel with
  | O => s
  | S k => let s' := mstep nodes s in if flags_eqb s' s then s else miter k nodes s'
  end.

Definition mbot (nodes : list mnode) : flags := map (fun _ => false) nodes.
Definition mlfp (nodes : list mnode) : flags := miter (S (length nodes)) nodes (mbot nodes).

Definition may_mutate (nodes : list mnode) (v : N) : bool := flag_at (mlfp nodes) v.

(* every callee id names a node *)
Definition nodes_wf (nodes : list mnode) : bool :=
  forallb (fun nd => forallb (fun j => N.ltb j (N.of_nat (length nodes))) (mn_calls nd)) nodes.

(* a template may change a value it was given *)
Definition templ_may_mutate (s : flags) (t : mtempl) : bool :=
  mt_direct t || existsb (flag_at s) (mt_calls t).
Definition templ_may_mutate_ctx (s : flags) (t : mtempl) : bool :=
  mt_ctx_direct t || existsb (flag_at s) (mt_ctx_calls t).

(* the table sweep: every template outside `suspects` is clean under flags s *)
Definition pure_outside (s : flags) (suspects : list str) (ts : list mtempl) : bool :=
  forallb (fun t => mem_str (mt_key t) suspects || negb (templ_may_mutate s t)) ts.
Definition flagged_keys (s : flags) (ts : list mtempl) : list str :=
  map mt_key (filter (templ_may_mutate s) ts).
Definition flagged_fns (nodes : list mnode) (s : flags) : list (str * N) :=
  map (fun p => (mn_fn (fst p), mn_pos (fst p)))
      (filter (fun p => snd p) (combine nodes s)).

(* ---- summary semantics: what can happen to one tracked object ---------------------- *)
Inductive exec := Exec (v : N) (muts : nat) (calls : list exec).

Definition root (e : exec) : N := match e with Exec v _ _ => v end.
Definition node_of (nodes : list mnode) (v : N) : option mnode := nth_error nodes (N.to_nat v).
Fixpoint memN (x : N) (l : list N) : bool :=
  match l with [] => false | y :: r => N.eqb x y || memN x r end.

(* the execution respects the summary: direct mutation events only where the summary has a
   site, calls only along the summary's edges, recursively *)
Fixpoint valid_exec (nodes : list mnode) (e : exec) : bool :=
  match e with
  | Exec v m cs =>
    match node_of nodes v with
    | None => false
    | Some nd =>
      (Nat.eqb m 0 || mn_direct nd)
      && forallb (fun c => memN (root c) (mn_calls nd) && valid_exec nodes c) cs
    end
  end.

(* number of mutation events performed on the tracked object, at any depth *)
Fixpoint mutations (e : exec) : nat :=
  match e with
  | Exec _ m cs => m + fold_right (fun c acc => mutations c + acc) O cs
  end.
Fixpoint depth (e : exec) : nat :=
  match e with
  | Exec _ _ cs => S (fold_right (fun c acc => Nat.max (depth c) acc) O cs)
  end.

(* the template sets C10 is stated for (hand-maintained; the derived list is printed in
   the evidence and compared with this one by props/C10.py).  Verdicts by the dynamic
   oracle: G = genuine in-place change of a value another reference sees, F = false
   positive of the static summary (no change observed on any generated argument),
   - = not exercised by the oracle (modifier operands are created by the modifier's own code). *)
Open Scope N_scope.
Definition u (l : list N) : str := l.
Definition c10_suspect_elements : list str :=
  [ u [8224]         (* †   function_call(stack): pops / pushes the stack itself        F *)
  ; u [42]           (* *   multiply: stored_arity on a function argument               G *)
  ; u [44]           (* ,   vy_print -> LazyList.output: ctx.stacks push/pop            F *)
  ; u [66]           (* B   vy_int -> multiply                                          F *)
  ; u [84]           (* T   truthy_indices -> multiply (given a function)               G *)
  ; u [94]           (* ^   wrapify(stack, n) -> pop                                    F *)
  ; u [98]           (* b   vy_bin -> wrapify -> pop                                    F *)
  ; u [100]          (* d   multiply(lhs, 2) (given a function)                         G *)
  ; u [114]          (* r   orderless_range -> multiply (given a function)              G *)
  ; u [289]          (* ġ   vy_gcd -> wrapify -> pop                                    F *)
  ; u [550]          (* Ȧ   assign_iterable: lhs[rhs] = other on lhs[:] / deep_copy(lhs) F *)
  ; u [178]          (* ²   square: nested helper `temp += " "` on a string             F *)
  ; u [8372]         (* ₴   vy_print                                                    F *)
  ; u [8230]         (* …   vy_print                                                    F *)
  ; u [928]          (* Π   product -> multiply                                         F *)
  ; u [8222]         (* „   wrapify(stack, n)                                           F *)
  ; u [8223]         (* ‟   wrapify(stack, n)                                           F *)
  ; u [8710; 177]    (* ∆±  copy_sign -> multiply                                       F *)
  ; u [8710; 76]     (* ∆L  natural_log -> wrapify                                      F *)
  ; u [222; 7744]    (* ÞṀ  matrix_multiply -> dot_product -> multiply                  F *)
  ; u [222; 8226]    (* Þ•  dot_product -> multiply (given a function)                  G *)
  ; u [222; 8453]    (* Þ℅  shuffle: random.shuffle(deep_copy(lhs)), the copy's cache   F *)
  ; u [168; 44]      (* ¨,  vy_print                                                    F *)
  ; u [168; 8230]    (* ¨…  vy_print                                                    F *)
  ; u [168; 77]      (* ¨M  apply_at -> assign_iterable                                 F *)
  ; u [168; 7815]    (* ¨ẇ  wrapify(stack, n)                                           F *)
  ].
Definition c10_suspect_modifiers : list str :=
  [ u [118]          (* v   wrapify(stack, n); vectorise(function_A, ...)               F *)
  ; u [126]          (* ~   wrapify(stack, n)                                           F *)
  ; u [8332]         (* ₌   wrapify                                                     F *)
  ; u [8333]         (* ₍   wrapify                                                     F *)
  ; u [402]          (* ƒ   function_A.stored_arity = 2 on the operand it just defined  - *)
  ; u [598]          (* ɖ   function_A.stored_arity = 2 on the operand it just defined  - *)
  ; u [223]          (* ß   function_call(stack)                                        F *)
  ].

(* the duplicating templates and the number of deep_copy pushes each must make: `:` one copy
   next to the original, `D` two, `Ḃ` (bifurcate) one, `¾` pushes a copy of the global array *)
Definition dup_expected : list (str * N) :=
  [ (u [58], 1); (u [68], 2); (u [7682], 1); (u [190], 1) ].
Definition dup_template_ok (ds : list dtempl) (e : str * N) : bool :=
  existsb (fun d => str_eqb (dt_key d) (fst e) && N.leb (dt_bare d) 1 && N.leb (snd e) (dt_copied d)) ds
  && forallb (fun d => negb (str_eqb (dt_key d) (fst e)) || (N.leb (dt_bare d) 1 && N.leb (snd e) (dt_copied d))) ds.
Definition dup_templates_ok (ds : list dtempl) : bool := forallb (dup_template_ok ds) dup_expected.

(* ================= Part 2: heap semantics of the copy templates ================= *)
Close Scope N_scope.
Open Scope Z_scope.

(* deep_copy of an EAGER list l: LazyList(tee(l)[-1]).  raw_object reads the list object
   through one list iterator: item `pos` of the object as it is AT THAT MOMENT; once the
   iterator has run off the end it is exhausted for good. *)
Record ecopy := { ec_gen : list Z; ec_obj : nat; ec_pos : nat; ec_done : bool }.

Record state := { objs : list (list Z);      (* eager list objects *)
                  copies : list ecopy;       (* lazy copies of eager lists *)
                  lz : heap }.               (* lazy lists and their copies (C13) *)

Inductive ref := REager (o : nat) | RCopy (k : nat) | RLazy (c : nat).

Definition obj_of (st : state) (o : nat) : list Z := nth o (objs st) [].

Fixpoint upd {A} (l : list A) (i : nat) (x : A) : list A :=
  match l, i with
  | [], _ => []
  | _ :: r, O => x :: r
  | y :: r, S i' => y :: upd r i' x
  end.

Definition copy_den (os : list (list Z)) (c : ecopy) : list Z :=
  ec_gen c ++ (if ec_done c then [] else skipn (ec_pos c) (nth (ec_obj c) os [])).

(* what a reference denotes *)
Definition rden (st : state) (r : ref) : list Z :=
  match r with
  | REager o => obj_of st o
  | RCopy k => match nth_error (copies st) k with Some c => copy_den (objs st) c | None => [] end
  | RLazy c => abs (lz st) c
  end.
Definition rvalid (st : state) (r : ref) : Prop :=
  match r with
  | REager o => (o < length (objs st))%nat
  | RCopy k => (k < length (copies st))%nat
  | RLazy c => (c < length (lz st))%nat
  end.

Definition set_copy (st : state) (k : nat) (c : ecopy) : state :=
  {| objs := objs st; copies := upd (copies st) k c; lz := lz st |}.

(* LazyList.__next__ of a copy cell:
     item = vyxalify(next(self.raw_object)); self.generated.append(item); return item *)
Definition cnext (k : nat) (st : state) : option (option Z * state) :=
  match nth_error (copies st) k with
  | None => None
  | Some c =>
    if ec_done c then Some (None, st)
    else match nth_error (obj_of st (ec_obj c)) (ec_pos c) with
         | Some v => Some (Some v, set_copy st k {| ec_gen := ec_gen c ++ [v]; ec_obj := ec_obj c;
                                                    ec_pos := S (ec_pos c); ec_done := false |})
         | None => Some (None, set_copy st k {| ec_gen := ec_gen c; ec_obj := ec_obj c;
                                                ec_pos := ec_pos c; ec_done := true |})
         end
  end.
Definition cgen (k : nat) (st : state) : list Z :=
  match nth_error (copies st) k with Some c => ec_gen c | None => [] end.

Definition retS {A} (wrap : A -> out) (st : state) (r : option (A * state)) : out * state :=
  match r with Some (a, st') => (wrap a, st') | None => (OFuel, st) end.

(* an observation of a copy cell: the methods of Model/LazyList.v over this cell's __next__ *)
Definition cobs (k : nat) (w : kind) (st : state) : out * state :=
  let nx := cnext k in
  let g := cgen k in
  let lf := S (length (rden st (RCopy k))) in
  match w with
  | KIndex i =>
    if i <? 0 then retS (fun x => x) st (index_neg state nx g lf i st)
    else retS OZ st (index_nonneg state nx g i st)
  | KSlice a b s => retS (fun x => x) st (getitem_slice state nx g lf a b s st)
  | KLen => retS OZ st (len state nx g lf st)
  | KIter => retS OL st (iterate state nx g lf st)
  | KBool => retS OB st (truth state nx g st)
  | KContains x => retS OB st (contains state nx g lf x st)
  | KEqList l => retS OB st (eq_list state nx g lf l st)
  | KEqLazy l => retS OB st (eq_list state nx g lf l st)
  | KCount x => retS OZ st (count state nx g lf x st)
  | KReversed => retS OL st (reversed state nx g lf st)
  | KCopy => (OUnit, st)              (* a copy of a copy of an eager list: not modelled *)
  | KListify => retS OL st (listify state nx g lf st)
  | KHasInd i => retS OB st (has_ind state nx g i st)
  | KNext =>
    match nx st with
    | None => (OFuel, st)
    | Some (Some v, st') => (OZ v, st')
    | Some (None, st') => (OStop, st')
    end
  end.

(* LazyList.__setitem__(position, value) on a cell of the C13 heap:
     if position >= len(self.generated): self.__getitem__(position)
     self.generated[position] = value          (IndexError when still out of range) *)
Definition cell_set_gen (x : cell) (i : nat) (v : Z) : cell :=
  match x with
  | Root g r => Root (upd g i v) r
  | View g p gpos d => View (upd g i v) p gpos d
  end.
Definition lazy_setitem (h : heap) (c i : nat) (v : Z) : heap :=
  match index_nonneg heap (next (S c) c) (gen_of c) (Z.of_nat i) h with
  | None => h
  | Some (_, h1) =>
    match get h1 c with
    | Some x => if Nat.ltb i (length (cell_gen x)) then set h1 c (cell_set_gen x i v) else h1
    | None => h1
    end
  end.

Inductive eop :=
| EObs (o : op)                       (* an observation of C13 on a lazy cell; KCopy is `:` on a lazy list *)
| ECObs (k : nat) (w : kind)          (* the same observations on a copy of an eager list *)
| ERead (o : nat)                     (* any read of an eager list *)
| EDup (o : nat)                      (* `:` on an eager list: stack.append(deep_copy(top)) *)
| EAssign (o i : nat) (v : Z)         (* l[i] = v on an eager list object *)
| EAppend (o : nat) (v : Z)           (* l.append(v): what the ⅛ template does to ctx.global_array *)
| ESetLazy (c i : nat) (v : Z).       (* LazyList.__setitem__ *)

Definition mutating (e : eop) : bool :=
  match e with EAssign _ _ _ | EAppend _ _ | ESetLazy _ _ _ => true | _ => false end.
Definition eop_ok (e : eop) : bool :=
  match e with
  | EObs o => op_ok o
  | ECObs _ (KSlice _ _ (Some s)) => negb (s =? 0)
  | _ => true
  end.

Definition new_copy (o : nat) : ecopy := {| ec_gen := []; ec_obj := o; ec_pos := O; ec_done := false |}.

Definition estep (st : state) (e : eop) : out * state :=
  match e with
  | EObs o =>
    match lz st with
    | [] => (OFuel, st)
    | _ => let r := step (lz st) o in (fst r, {| objs := objs st; copies := copies st; lz := snd r |})
    end
  | ECObs k w => if Nat.ltb k (length (copies st)) then cobs k w st else (OFuel, st)
  | ERead o => (OL (obj_of st o), st)
  | EDup o => (OUnit, {| objs := objs st; copies := copies st ++ [new_copy o]; lz := lz st |})
  | EAssign o i v =>
    (OUnit, {| objs := upd (objs st) o (upd (obj_of st o) i v); copies := copies st; lz := lz st |})
  | EAppend o v =>
    (OUnit, {| objs := upd (objs st) o (obj_of st o ++ [v]); copies := copies st; lz := lz st |})
  | ESetLazy c i v =>
    (OUnit, {| objs := objs st; copies := copies st; lz := lazy_setitem (lz st) c i v |})
  end.

Fixpoint erun (st : state) (es : list eop) : state :=
  match es with
  | [] => st
  | e :: r => erun (snd (estep st e)) r
  end.

(* the duplicating templates: `:` pushes deep_copy(top) next to top.  Returns the new state
   and the new reference; a copy of a copy of an eager list is outside the model. *)
Definition dup (st : state) (r : ref) : option (state * ref) :=
  match r with
  | REager o => Some (snd (estep st (EDup o)), RCopy (length (copies st)))
  | RLazy c =>
    match lz st with
    | [] => None
    | _ => Some (snd (estep st (EObs {| target := c; what := KCopy |})), RLazy (length (lz st)))
    end
  | RCopy _ => None
  end.

Definition swf (st : state) : Prop := wf (lz st).
