(* Model of the codecs of property C15.

   vyxal/helpers.py : from_base_alphabet, from_base_digits, to_base_digits,
                      to_base_alphabet, uncompress_num, uncompress_str, uncompress_dict
   vyxal/elements.py: to_base (element tau), from_base (element beta),
                      base_255_number_compress (oC), base_255_string_compress (oc),
                      optimal_compress (oD)
   vyxal/dictionary.py: word_index

   Integers are Z, characters N, strings list N.  Python exceptions and the
   exhaustion of fuel are `None`.  Alphabets come from Gen/Codepage.v, which is
   regenerated from vyxal/encoding.py on every run.  No proofs in this file. *)
From Coq Require Import List NArith ZArith Bool.
From Vy Require Import Model.Base Gen.Codepage.
Import ListNotations.
Open Scope Z_scope.

Definition zlen {A} (l : list A) : Z := Z.of_nat (length l).

(* alphabet.find(c) for a single character: first index, or -1 *)
Definition zfind (c : N) (alphabet : str) : Z :=
  match find_index c alphabet with Some i => Z.of_N i | None => -1 end.

(* l[i] with Python's indexing: negative positions count from the end, anything
   outside raises IndexError (None) *)
Definition py_index {A} (l : list A) (i : Z) : option A :=
  if 0 <=? i then nth_error l (Z.to_nat i)
  else if 0 <=? zlen l + i then nth_error l (Z.to_nat (zlen l + i))
  else None.

Fixpoint mapM_opt {A B} (f : A -> option B) (l : list A) : option (list B) :=
  match l with
  | [] => Some []
  | x :: r => match f x, mapM_opt f r with Some y, Some ys => Some (y :: ys) | _, _ => None end
  end.

(* ---- helpers.py ----------------------------------------------------------- *)

(* ret = 0; for digit in digit_list: ret = base * ret + digit *)
Definition from_base_digits (ds : list Z) (b : Z) : Z :=
  fold_left (fun ret d => b * ret + d) ds 0.

(* ret = 0; for digit in value: ret = len(alphabet) * ret + alphabet.find(digit) *)
Definition from_base_alphabet (v : str) (alphabet : str) : Z :=
  fold_left (fun ret c => zlen alphabet * ret + zfind c alphabet) v 0.

(* while n >= base: n, digit = divmod(n, base); ret.append(digit)
   ret.append(n); return ret[::-1]
   `acc` is ret already reversed.  Z.div / Z.modulo round towards minus infinity
   like Python's divmod.  Fuel: one unit per iteration. *)
Fixpoint to_base_loop (fuel : nat) (n b : Z) (acc : list Z) : option (list Z) :=
  if b <=? n then
    match fuel with
    | O => None
    | S f => to_base_loop f (n / b) b (n mod b :: acc)
    end
  else Some (n :: acc).

(* enough for every n >= 0 and base >= 2 (proved): each iteration at least halves n *)
Definition digit_fuel (n : Z) : nat := S (Z.to_nat (Z.log2 n)).

Definition to_base_digits (n b : Z) : option (list Z) := to_base_loop (digit_fuel n) n b [].

(* temp = to_base_digits(value, len(alphabet)); "".join(alphabet[i] for i in temp) *)
Definition to_base_alphabet (n : Z) (alphabet : str) : option str :=
  match to_base_digits n (zlen alphabet) with
  | Some ds => mapM_opt (py_index alphabet) ds
  | None => None
  end.

Definition uncompress_num (s : str) : Z := from_base_alphabet s codepage_number_compress.

Definition uncompress_str (s : str) : option str :=
  to_base_alphabet (from_base_alphabet s codepage_string_compress) base_27_alphabet.

(* ---- elements.py: to_base / from_base -------------------------------------- *)

(* for i in range(e, -1, -1): digit, remaining = divmod(lhs, len(rhs) ** i)
                              res.append(index(rhs, digit, ctx)); lhs = remaining
   index(rhs, digit) is rhs[int(digit) % len(rhs)].  The list below holds the
   positions int(digit) % len(rhs) for i = k-1 .. 0.  The exponent e is
   int(nsimplify(math.log(lhs, len(rhs)))) in the code: a float computation that
   is outside the model, hence a parameter. *)
Fixpoint to_base_pos (k : nat) (n len : Z) : list Z :=
  match k with
  | O => []
  | S j => let p := len ^ Z.of_nat j in ((n / p) mod len) :: to_base_pos j (n mod p) len
  end.

(* elif lhs == 0: maximal_exponent = 0
   else: maximal_exponent = int(log_mold_multi(lhs, len(rhs), ctx))   -- the parameter e
   (the branch len(rhs) == 1 is base 1, outside the property) *)
Definition elem_exponent (e : nat) (n : Z) : nat := if n =? 0 then O else e.

(* numeric right operand b: rhs = list(range(0, b)), so rhs[d] = d *)
Definition to_base_e (e : nat) (n b : Z) : list Z := to_base_pos (S (elem_exponent e n)) n b.

(* string right operand *)
Definition to_base_alpha_e (e : nat) (n : Z) (alphabet : str) : option str :=
  mapM_opt (py_index alphabet) (to_base_pos (S (elem_exponent e n)) n (zlen alphabet)).

(* from_base: (str, str) -> from_base_alphabet ; (list, num) -> from_base_digits *)
Definition from_base_num := from_base_digits.
Definition from_base_str := from_base_alphabet.

Definition ch_num_delim : N := 187%N.   (* » *)
Definition ch_str_delim : N := 171%N.   (* « *)
Definition ch_backquote : N := 96%N.
Definition ch_backslash : N := 92%N.
Definition ch_space : N := 32%N.
Definition ch_lambda : N := 955%N.

(* "»" + to_base(lhs, codepage_number_compress) + "»" *)
Definition compress_num_payload (e : nat) (n : Z) : option str :=
  to_base_alpha_e e n codepage_number_compress.
Definition compress_num (e : nat) (n : Z) : option str :=
  match compress_num_payload e n with
  | Some p => Some (ch_num_delim :: p ++ [ch_num_delim])
  | None => None
  end.

(* "«" + to_base(from_base(lhs, base_27_alphabet), codepage_string_compress) + "«" *)
Definition compress_str_payload (e : nat) (s : str) : option str :=
  to_base_alpha_e e (from_base_alphabet s base_27_alphabet) codepage_string_compress.
Definition compress_str (e : nat) (s : str) : option str :=
  match compress_str_payload e s with
  | Some p => Some (ch_str_delim :: p ++ [ch_str_delim])
  | None => None
  end.

(* the exponent a correct logarithm would give: number of digits minus one *)
Definition exact_exponent (n b : Z) : nat :=
  match to_base_digits n b with Some ds => pred (length ds) | None => O end.

(* ---- dictionary compression ------------------------------------------------
   Parametric in the dictionary.  contents_at i = Some contents[i] for
   0 <= i < len(contents) and None otherwise; small_at likewise for
   small_dictionary; lookup is dictionary.lookup (word -> last index);
   max_word_len as in dictionary.py. *)
Section Dict.
  Variable contents_at : Z -> option str.
  Variable small_at : Z -> option str.
  Variable lookup : str -> option Z.
  Variable max_word_len : nat.

  Definition opt_word (o : option str) : str := match o with Some w => w | None => [] end.

  (* pos = compression.find(temp_scc); if pos < len(small_dictionary): ret += small_dictionary[pos] *)
  Definition small_lookup (c : N) : str := opt_word (small_at (zfind c compression)).
  Definition flush_scc (t : option N) : str :=
    match t with Some c => small_lookup c | None => [] end.

  (* the loop state of uncompress_dict.  temp_scc holds at most one character
     between iterations (two are consumed at once), hence option N *)
  Record dstate := DS { d_ret : str; d_tmp : option N; d_esc : bool }.

  Definition dstep (st : dstate) (c : N) : dstate :=
    if d_esc st then
      DS (d_ret st ++ flush_scc (d_tmp st) ++ (if mem c compression then [] else [ch_backslash]) ++ [c]) None false
    else if N.eqb c ch_backslash then DS (d_ret st) (d_tmp st) true
    else if mem c compression then
      match d_tmp st with
      | None => DS (d_ret st) (Some c) false
      | Some c0 => DS (d_ret st ++ opt_word (contents_at (from_base_alphabet [c0; c] compression))) None false
      end
    else
      match d_tmp st with
      | Some c0 => DS (d_ret st ++ small_lookup c0 ++ (if N.eqb c ch_space then [] else [c])) None false
      | None => DS (d_ret st ++ [c]) None false
      end.

  Definition dstart : dstate := DS [] None false.
  Definition dfinish (st : dstate) : str := d_ret st ++ flush_scc (d_tmp st).
  Definition uncompress_dict (s : str) : str := dfinish (fold_left dstep s dstart).

  (* dictionary.word_index; None is the -1 of the code.  to_base_alphabet cannot
     fail on an index >= 0 (proved), so None never stands for an exception *)
  Definition word_index (w : str) : option str :=
    match lookup w with
    | Some i =>
        match to_base_alphabet i compression with
        | Some [c] => Some [ch_lambda; c]
        | Some r => Some r
        | None => None
        end
    | None => None
    end.

  (* min([a, b], key=len): the first of minimal length *)
  Definition shorter (a b : str) : str := if (length a <=? length b)%nat then a else b.

  (* lhs[l:r] for 0 <= l <= r *)
  Definition slice (s : str) (l r : nat) : str := firstn (r - l) (skipn l s).

  (* for left in range(lo, ind - 1): i = word_index(lhs[left:ind]); if i != -1: ...; break *)
  Fixpoint first_word (s : str) (ind lft count : nat) : option (nat * str) :=
    match count with
    | O => None
    | S k =>
        match word_index (slice s lft ind) with
        | Some code => Some (lft, code)
        | None => first_word s ind (S lft) k
        end
    end.

  (* one iteration of the outer loop; dp = [DP[0]; ...; DP[ind-1]], ph the
     placeholder " " * (len(lhs) + 1) every entry starts as *)
  Definition dp_step (s ph : str) (dp : list str) : list str :=
    let ind := length dp in
    let lo := (ind - max_word_len)%nat in
    let cur :=
      match first_word s ind lo (ind - 1 - lo) with
      | Some (lft, code) => shorter ph (nth lft dp ph ++ code)
      | None => ph
      end in
    dp ++ [shorter cur (nth (ind - 1) dp ph ++ firstn 1 (skipn (ind - 1) s))].

  Fixpoint dp_run (s ph : str) (k : nat) (dp : list str) : list str :=
    match k with
    | O => dp
    | S k' => dp_run s ph k' (dp_step s ph dp)
    end.

  Definition optimal_payload (s : str) : str :=
    let ph := repeat ch_space (S (length s)) in
    last (dp_run s ph (length s) [[]]) ph.

  (* "`" + DP[-1] + "`" *)
  Definition optimal_compress (s : str) : str := ch_backquote :: optimal_payload s ++ [ch_backquote].
End Dict.
