(* C19 -- online mode contains the program.  Model only, no proofs.

   Part 1: the vocabulary of the sink table (Gen/Sinks.v, regenerated from
   /repo/vyxal/*.py by tools/gen_sinks.py): path conditions as boolean formulas over the
   atom `online`, their three-valued semantics and the syntactic guard check.

   Part 2: effect-trace models of the decision logic of vy_eval, vy_print /
   LazyList.output, function_call's string overload, vy_exec and of the input parsing
   and error capture of execute_vyxal. *)
From Coq Require Import List NArith Bool.
From Vy Require Import Model.Base.
Import ListNotations.
Open Scope N_scope.

(* ------------------------------------------------------------------------- *)
(* Part 1: sink table vocabulary                                               *)
(* ------------------------------------------------------------------------- *)

Inductive formula :=
| FTrue
| FOnline                       (* ctx.online  (online_mode inside execute_vyxal) *)
| FNot (f : formula)
| FAnd (f g : formula)
| FOr (f g : formula)
| FAtom (n : nat)               (* an opaque condition; same text = same number *)
| FUnknown.                     (* a condition the translator could not read *)

(* Kleene semantics: None = not determined.  An FUnknown has no value; an atom has the
   value the environment gives it. *)
Definition and3 (a b : option bool) : option bool :=
  match a, b with
  | Some false, _ | _, Some false => Some false
  | Some true, Some true => Some true
  | _, _ => None
  end.
Definition or3 (a b : option bool) : option bool :=
  match a, b with
  | Some true, _ | _, Some true => Some true
  | Some false, Some false => Some false
  | _, _ => None
  end.
Definition not3 (a : option bool) : option bool :=
  match a with Some b => Some (negb b) | None => None end.

Fixpoint eval_formula (online : bool) (atoms : nat -> bool) (f : formula) : option bool :=
  match f with
  | FTrue => Some true
  | FOnline => Some online
  | FNot g => not3 (eval_formula online atoms g)
  | FAnd g h => and3 (eval_formula online atoms g) (eval_formula online atoms h)
  | FOr g h => or3 (eval_formula online atoms g) (eval_formula online atoms h)
  | FAtom n => Some (atoms n)
  | FUnknown => None
  end.

(* two-valued semantics under an arbitrary completion: every FUnknown is replaced by
   a boolean chosen by `unk` from its position (path from the root) *)
Fixpoint eval_total (online : bool) (atoms : nat -> bool) (unk : list bool -> bool)
         (pos : list bool) (f : formula) : bool :=
  match f with
  | FTrue => true
  | FOnline => online
  | FNot g => negb (eval_total online atoms unk (true :: pos) g)
  | FAnd g h => eval_total online atoms unk (true :: pos) g && eval_total online atoms unk (false :: pos) h
  | FOr g h => eval_total online atoms unk (true :: pos) g || eval_total online atoms unk (false :: pos) h
  | FAtom n => atoms n
  | FUnknown => unk pos
  end.

(* syntactic check: the formula is false (resp. true) whenever online = true,
   whatever the atoms and the unknown parts are *)
Fixpoint must_false (f : formula) : bool :=
  match f with
  | FNot g => must_true g
  | FAnd g h => must_false g || must_false h
  | FOr g h => must_false g && must_false h
  | _ => false
  end
with must_true (f : formula) : bool :=
  match f with
  | FTrue => true
  | FOnline => true
  | FNot g => must_false g
  | FAnd g h => must_true g && must_true h
  | FOr g h => must_true g || must_true h
  | _ => false
  end.

(* A complete check for formulas without FUnknown and with few atoms: try every assignment
   of the atoms that occur (online fixed to true).  Atoms with the same number are the same
   condition evaluated once, or a condition the translator found stable; see gen_sinks.py. *)
Fixpoint atoms_in (f : formula) : list nat :=
  match f with
  | FNot g => atoms_in g
  | FAnd g h | FOr g h => atoms_in g ++ atoms_in h
  | FAtom n => [n]
  | _ => []
  end.

Fixpoint has_unknown (f : formula) : bool :=
  match f with
  | FNot g => has_unknown g
  | FAnd g h | FOr g h => has_unknown g || has_unknown h
  | FUnknown => true
  | _ => false
  end.

(* two-valued evaluation; only meaningful when has_unknown f = false *)
Fixpoint eval2 (online : bool) (atoms : nat -> bool) (f : formula) : bool :=
  match f with
  | FTrue => true
  | FOnline => online
  | FNot g => negb (eval2 online atoms g)
  | FAnd g h => eval2 online atoms g && eval2 online atoms h
  | FOr g h => eval2 online atoms g || eval2 online atoms h
  | FAtom n => atoms n
  | FUnknown => false
  end.

Fixpoint dedup (l : list nat) : list nat :=
  match l with
  | [] => []
  | x :: r => if existsb (Nat.eqb x) r then dedup r else x :: dedup r
  end.

Fixpoint lookup (asg : list (nat * bool)) (n : nat) : bool :=
  match asg with
  | [] => false
  | (k, v) :: r => if Nat.eqb n k then v else lookup r n
  end.

Fixpoint assignments (l : list nat) : list (list (nat * bool)) :=
  match l with
  | [] => [[]]
  | a :: r => map (cons (a, true)) (assignments r) ++ map (cons (a, false)) (assignments r)
  end.

Definition sat_excludes (f : formula) : bool :=
  negb (has_unknown f)
  && Nat.leb (length (dedup (atoms_in f))) 12
  && forallb (fun asg => negb (eval2 true (lookup asg) f)) (assignments (dedup (atoms_in f))).

Definition guard_excludes_online (f : formula) : bool := must_false f || sat_excludes f.

Inductive sink_kind :=
| KPrint | KExec | KEval | KCompile | KInput | KExit | KUrl | KOpen | KSystem | KImport | KSympy.

Inductive arg_kind :=
| AConst          (* a constant or no argument *)
| AUser           (* a parameter / local of the enclosing function: derived from user data *)
| APycode         (* sympy.pycode(...) *)
| ATranspiled     (* transpile(...) or a local whose last assignment is transpile(...) *)
| AUnknown.

Inductive write_kind := WFalse | WCopy | WParam | WOther.

Record sink := {
  s_file : str; s_fn : str; s_line : N; s_kind : sink_kind; s_arg : arg_kind; s_cond : formula }.

Definition kind_eqb (a b : sink_kind) : bool :=
  match a, b with
  | KPrint, KPrint | KExec, KExec | KEval, KEval | KCompile, KCompile | KInput, KInput
  | KExit, KExit | KUrl, KUrl | KOpen, KOpen | KSystem, KSystem | KImport, KImport | KSympy, KSympy => true
  | _, _ => false
  end.
Definition arg_eqb (a b : arg_kind) : bool :=
  match a, b with
  | AConst, AConst | AUser, AUser | APycode, APycode | ATranspiled, ATranspiled | AUnknown, AUnknown => true
  | _, _ => false
  end.

Definition elements_py : str := [118;121;120;97;108;47;101;108;101;109;101;110;116;115;46;112;121].
Definition helpers_py : str := [118;121;120;97;108;47;104;101;108;112;101;114;115;46;112;121].
Definition main_py : str := [118;121;120;97;108;47;109;97;105;110;46;112;121].
Definition dictionary_py : str := [118;121;120;97;108;47;100;105;99;116;105;111;110;97;114;121;46;112;121].

(* the functions the property names: input parsing (execute_vyxal, vy_eval, get_input),
   the evaluate element (exp2_or_eval), the call element (function_call), E-dot (vy_exec) *)
Definition anchor_fns : list (str * str) := [
  (* vy_eval *) (helpers_py, [118;121;95;101;118;97;108]);
  (* get_input *) (helpers_py, [103;101;116;95;105;110;112;117;116]);
  (* exp2_or_eval *) (elements_py, [101;120;112;50;95;111;114;95;101;118;97;108]);
  (* exp2_or_eval.<lambda> *) (elements_py, [101;120;112;50;95;111;114;95;101;118;97;108;46;60;108;97;109;98;100;97;62]);
  (* function_call *) (elements_py, [102;117;110;99;116;105;111;110;95;99;97;108;108]);
  (* function_call.<lambda> *) (elements_py, [102;117;110;99;116;105;111;110;95;99;97;108;108;46;60;108;97;109;98;100;97;62]);
  (* vy_exec *) (elements_py, [118;121;95;101;120;101;99]);
  (* execute_vyxal *) (main_py, [101;120;101;99;117;116;101;95;118;121;120;97;108]) ].

(* the sinks that print to the host, read from it, or compile/evaluate/execute text;
   sympy's text parsers count when they sit in one of the functions the property names *)
Definition in_scope (s : sink) : bool :=
  match s_kind s with
  | KPrint | KExec | KEval | KCompile | KInput => true
  | KSympy => existsb (fun a => str_eqb (fst a) (s_file s) && str_eqb (snd a) (s_fn s)) anchor_fns
  | _ => false
  end.

(* In-scope sinks that are NOT guarded by the mode, listed one by one: file, function,
   kind, kind of the argument, and how many call sites the entry may cover at most.
   An entry stops matching when the argument changes kind (e.g. eval(sympy.pycode(v))
   becoming eval(v)), and the count stops a second sink hiding behind an entry. *)
Record exclusion := {
  x_file : str; x_fn : str; x_kind : sink_kind; x_arg : arg_kind; x_max : nat }.

(* (a) legitimately unguarded: the text reaching the sink is not user text *)
Definition legit_unguarded : list exclusion := [
  (* main.py execute_vyxal: exec(code, ...) where code = transpile(program): the emitted
     Python is the fixed template vocabulary with user strings as quoted literals (C18/C06) *)
  {| x_file := main_py; x_fn := [101;120;101;99;117;116;101;95;118;121;120;97;108];
     x_kind := KExec; x_arg := ATranspiled; x_max := 1 |};
  (* elements.py vy_exec (element Ė): exec(transpile(lhs, ...)): the string is run as VYXAL,
     through the same transpiler, never as Python *)
  {| x_file := elements_py; x_fn := [118;121;95;101;120;101;99];
     x_kind := KExec; x_arg := ATranspiled; x_max := 1 |};
  (* helpers.py simplify: eval(sympy.pycode(value)) under is_sympy(value): the text is
     sympy's own rendering of a NUMBER, not a string of the user *)
  {| x_file := helpers_py; x_fn := [115;105;109;112;108;105;102;121];
     x_kind := KEval; x_arg := APycode; x_max := 1 |};
  (* elements.py vy_str, NUMBER_TYPE overload: eval(sympy.pycode(sympy.nsimplify(lhs))) *)
  {| x_file := elements_py; x_fn := [118;121;95;115;116;114;46;60;108;97;109;98;100;97;62];
     x_kind := KEval; x_arg := APycode; x_max := 1 |};
  (* elements.py vy_print under is_sympy(lhs): eval(sympy.pycode(sympy.nsimplify(lhs))) *)
  {| x_file := elements_py; x_fn := [118;121;95;112;114;105;110;116];
     x_kind := KEval; x_arg := APycode; x_max := 1 |};
  (* helpers.py reverse_number: eval(rev), rev = the reversed digit string of abs(number) *)
  {| x_file := helpers_py; x_fn := [114;101;118;101;114;115;101;95;110;117;109;98;101;114];
     x_kind := KEval; x_arg := AUser; x_max := 1 |};
  (* templates kN / kð: eval(datetime.now().strftime("[%H,%M,%S]")): a fixed format of the clock *)
  {| x_file := elements_py; x_fn := [116;112;108;32;107;78];
     x_kind := KEval; x_arg := AUnknown; x_max := 1 |};
  {| x_file := elements_py; x_fn := [116;112;108;32;107;240];
     x_kind := KEval; x_arg := AUnknown; x_max := 1 |};
  (* dictionary.py, module level under `if __name__ == "__main__"`: a developer listing,
     not reachable by importing the package *)
  {| x_file := dictionary_py; x_fn := [60;109;111;100;117;108;101;62];
     x_kind := KPrint; x_arg := AUnknown; x_max := 1 |};
  (* main.py repl(): the offline read-eval-print loop, entered only from cli() without
     arguments; execute_vyxal never calls it *)
  {| x_file := main_py; x_fn := [114;101;112;108]; x_kind := KInput; x_arg := AConst; x_max := 1 |};
  {| x_file := main_py; x_fn := [114;101;112;108]; x_kind := KPrint; x_arg := ATranspiled; x_max := 1 |};
  {| x_file := main_py; x_fn := [114;101;112;108]; x_kind := KExec; x_arg := ATranspiled; x_max := 1 |}
].

(* (b) unguarded and reachable in online mode, but outside what the property states
   ("neither the evaluate element, the call element on a string, nor input parsing";
   "writes nothing to the host's standard output"): reported in the evidence file *)
Definition noted_out_of_scope : list exclusion := [
  (* helpers.py get_input: input("> " * ctx.repl_mode) when the input list is empty: reads
     the HOST's stdin (prompt empty since repl_mode is False); the line read goes through
     vy_eval(..., ctx), which is guarded *)
  {| x_file := helpers_py; x_fn := [103;101;116;95;105;110;112;117;116];
     x_kind := KInput; x_arg := AUser; x_max := 1 |};
  (* template of the all-inputs element (U+25A1): input() when ctx.inputs[0] is empty; reads the host's stdin *)
  {| x_file := elements_py; x_fn := [116;112;108;32;9633];
     x_kind := KInput; x_arg := AConst; x_max := 2 |};
  (* template of element o-slash d-dot (U+00F8 U+1E0B): str(eval(sympy.pycode(lhs))): for a STRING lhs sympy
     parses (evaluates) the text in any mode -- DESIGN section 8, F10 *)
  {| x_file := elements_py; x_fn := [116;112;108;32;248;7691];
     x_kind := KEval; x_arg := APycode; x_max := 1 |}
].

Definition excl_matches (x : exclusion) (s : sink) : bool :=
  str_eqb (x_file x) (s_file s) && str_eqb (x_fn x) (s_fn s)
  && kind_eqb (x_kind x) (s_kind s) && arg_eqb (x_arg x) (s_arg s).

Definition listed (s : sink) : bool :=
  existsb (fun x => excl_matches x s) (legit_unguarded ++ noted_out_of_scope).

Fixpoint count_matching (x : exclusion) (l : list sink) : nat :=
  match l with
  | [] => O
  | s :: r => ((if excl_matches x s then 1 else 0) + count_matching x r)%nat
  end.

(* the per-sink obligation and the table-level obligations *)
Definition sink_ok (s : sink) : bool :=
  negb (in_scope s) || guard_excludes_online (s_cond s).

Definition exclusions_tight (l : list sink) : bool :=
  forallb (fun x => Nat.leb (count_matching x l) (x_max x)) (legit_unguarded ++ noted_out_of_scope).

(* the mode flag is written only by Context.__init__ (False), Context.copy (copied) and
   execute_vyxal (from its parameter) *)
Definition execute_vyxal_name : str := [101;120;101;99;117;116;101;95;118;121;120;97;108].
Definition write_ok (w : str * str * write_kind) : bool :=
  match w with
  | (_, _, WFalse) | (_, _, WCopy) => true
  | (f, fn, WParam) => str_eqb f main_py && str_eqb fn execute_vyxal_name
  | (_, _, WOther) => false
  end.


(* ------------------------------------------------------------------------- *)
(* ctx forwarding: calls of helpers whose `ctx` parameter has a default value  *)
(* ------------------------------------------------------------------------- *)

(* one call (or bare reference) of such a helper: where, the callee, whether ctx is passed
   explicitly (positionally, by keyword, or the helper is handed on to a call that gets
   ctx=...), whether the caller has a ctx in scope, whether the callee can reach a mode
   decision (calls a user function, reads .online, contains a sink -- over-approximating
   name-based call graph), whether the default is None *)
Record ctxcall := {
  c_file : str; c_fn : str; c_callee : str; c_line : N;
  c_passes : bool; c_has_ctx : bool; c_risky : bool; c_default_none : bool }.

Record ctx_exclusion := { cx_file : str; cx_fn : str; cx_callee : str; cx_max : nat }.

(* calls that leave the default in place and are harmless, one by one *)
Definition ctx_exclusions : list ctx_exclusion := [
  (* template B: vy_int(lhs, 2): only multiply/add of digits run under the default context; judged dynamically (function / tainted-string digits): no print, eval or call of a user function *)
  {| cx_file := elements_py; cx_fn := [116;112;108;32;66]; cx_callee := [118;121;95;105;110;116]; cx_max := 1 |};
  (* vy_int's own fallback vy_int(iterable(item, ctx=ctx), base): same arithmetic *)
  {| cx_file := elements_py; cx_fn := [118;121;95;105;110;116]; cx_callee := [118;121;95;105;110;116]; cx_max := 1 |};
  (* wrapify(rhs) without a count never pops (the context is only used by pop) *)
  {| cx_file := elements_py; cx_fn := [97;112;112;108;121;95;97;116]; cx_callee := [119;114;97;112;105;102;121]; cx_max := 1 |};
  (* wrapify(result) without a count never pops *)
  {| cx_file := elements_py; cx_fn := [102;117;110;99;116;105;111;110;95;99;97;108;108]; cx_callee := [119;114;97;112;105;102;121]; cx_max := 1 |};
  (* wrapify(solutions) without a count never pops *)
  {| cx_file := elements_py; cx_fn := [110;97;116;117;114;97;108;95;108;111;103;46;60;108;97;109;98;100;97;62]; cx_callee := [119;114;97;112;105;102;121]; cx_max := 1 |};
  (* default None: the mapped function only builds a string; a mode decision on None raises AttributeError (recorded), it cannot silently take the offline branch *)
  {| cx_file := elements_py; cx_fn := [97;110;103;108;101;95;98;114;97;99;107;101;116;105;102;121]; cx_callee := [118;101;99;116;111;114;105;115;101]; cx_max := 1 |};
  (* as angle_bracketify *)
  {| cx_file := elements_py; cx_fn := [98;114;97;99;107;101;116;105;102;121]; cx_callee := [118;101;99;116;111;114;105;115;101]; cx_max := 1 |};
  (* as angle_bracketify *)
  {| cx_file := elements_py; cx_fn := [99;117;114;108;121;95;98;114;97;99;107;101;116;105;102;121]; cx_callee := [118;101;99;116;111;114;105;115;101]; cx_max := 1 |};
  (* as angle_bracketify *)
  {| cx_file := elements_py; cx_fn := [112;97;114;101;110;116;104;101;115;105;115;101]; cx_callee := [118;101;99;116;111;114;105;115;101]; cx_max := 1 |};
  (* default None: str.ljust of the items *)
  {| cx_file := elements_py; cx_fn := [99;117;115;116;111;109;95;112;97;100;95;108;101;102;116]; cx_callee := [118;101;99;116;111;114;105;115;101]; cx_max := 1 |};
  (* default None: str.rjust of the items *)
  {| cx_file := elements_py; cx_fn := [99;117;115;116;111;109;95;112;97;100;95;114;105;103;104;116]; cx_callee := [118;101;99;116;111;114;105;115;101]; cx_max := 1 |};
  (* map(vy_sum, combinations of the CHARACTERS of a string): default None, additions of one-character strings only *)
  {| cx_file := elements_py; cx_fn := [118;121;95;100;105;118;109;111;100;46;60;108;97;109;98;100;97;62]; cx_callee := [118;121;95;115;117;109]; cx_max := 2 |}
].

Definition cx_matches (x : ctx_exclusion) (c : ctxcall) : bool :=
  str_eqb (cx_file x) (c_file c) && str_eqb (cx_fn x) (c_fn c) && str_eqb (cx_callee x) (c_callee c)
  && negb (c_passes c).

Definition ctx_listed (c : ctxcall) : bool := existsb (fun x => cx_matches x c) ctx_exclusions.

(* the obligation: from a function that has a ctx, a helper that can reach a mode decision
   is never left to its default context *)
Definition ctx_ok (c : ctxcall) : bool :=
  c_passes c || negb (c_has_ctx c) || negb (c_risky c) || ctx_listed c.

Fixpoint cx_count (x : ctx_exclusion) (l : list ctxcall) : nat :=
  match l with
  | [] => O
  | c :: r => ((if cx_matches x c then 1 else 0) + cx_count x r)%nat
  end.
Definition ctx_exclusions_tight (l : list ctxcall) : bool :=
  forallb (fun x => Nat.leb (cx_count x l) (cx_max x)) ctx_exclusions.

(* ------------------------------------------------------------------------- *)
(* Part 2: effect traces                                                       *)
(* ------------------------------------------------------------------------- *)

Inductive effect :=
| HostPrint      (* print(...) on the host's stdout *)
| OnlineOut      (* ctx.online_output[1] += ... *)
| PyEval         (* eval(<user text>) *)
| PyExec         (* exec(<user text>) *)
| LiteralEval    (* ast.literal_eval(<user text>) *)
| VyExec         (* exec(transpile(<text>)): the text run as Vyxal through the fixed templates *)
| HostInput      (* input() *)
| Exit           (* sys.exit(1) *)
| ErrRecord      (* ctx.online_output[2] += ... *)
| Raise.         (* an exception leaves the function *)

Record mode := { online : bool }.

(* --- vy_eval(item, ctx) -------------------------------------------------- *)
(* what the harness knows about the text independently of vy_eval *)
Record text_facts := {
  is_literal : bool;      (* ast.literal_eval succeeds on it AND the literal converts to a Vyxal
                             value (None, Ellipsis, [1, None], an infinite float do not) *)
  is_evaluable : bool     (* eval succeeds on it and the result converts *)
}.
(* the text comes back as a value, comes back unchanged (the same string), or the call
   raises -- which the model never does: input parsing has no try around it *)
Inductive eval_result := RValue | RUnchanged | RRaises.

Definition vy_eval_trace (m : mode) (t : text_facts) : list effect :=
  if online m then [LiteralEval] else [PyEval].
Definition vy_eval_result (m : mode) (t : text_facts) : eval_result :=
  if online m then (if is_literal t then RValue else RUnchanged)
  else (if is_evaluable t then RValue else RUnchanged).

(* --- vy_print(lhs, end, ctx) and LazyList.output ------------------------- *)
(* shape of the printed value: a scalar (string / number), a Python list (rendered by
   vy_str and printed once), a function (called, its result printed), a lazy list with
   its already generated prefix and the items still to be pulled *)
Inductive pval :=
| PScalar
| PList
| PFun (result : pval)
| PLazy (generated rest : list pval).

Definition out_effect (m : mode) : effect := if online m then OnlineOut else HostPrint.

Fixpoint sep_join (sep : list effect) (l : list (list effect)) : list effect :=
  match l with
  | [] => []
  | [t] => t
  | t :: r => t ++ sep ++ sep_join sep r
  end.

Fixpoint print_trace (m : mode) (v : pval) : list effect :=
  match v with
  | PScalar => [out_effect m]
  | PList => [out_effect m]
  | PFun r => print_trace m r
  | PLazy g r =>
      [out_effect m]                                             (* opening bracket *)
      ++ sep_join [out_effect m] (map (print_trace m) g)         (* cached items, a separate write for each separator between them *)
      ++ match r with
         | [] => []
         | _ => (match g with [] => [] | _ => [out_effect m] end)   (* separator after the cache *)
                ++ sep_join [out_effect m] (map (print_trace m) r)
         end
      ++ [out_effect m]                                          (* closing bracket *)
  end.

(* --- function_call (element dagger) on a string; vy_exec (element E-dot) --- *)
Inductive top_kind := TString | TOther.

Definition function_call_trace (m : mode) (k : top_kind) : list effect :=
  match k with
  | TString => if online m then [] else [PyExec]
  | TOther => []
  end.

Definition vy_exec_trace (m : mode) (k : top_kind) : list effect :=
  match k with
  | TString => [VyExec]
  | TOther => []
  end.

(* the body of a program can only be made of the modelled element traces *)
Inductive body_item :=
| BPrint (v : pval) | BEval (t : text_facts) | BCall (k : top_kind) | BVyExec (k : top_kind).
Definition body_item_trace (m : mode) (b : body_item) : list effect :=
  match b with
  | BPrint v => print_trace m v
  | BEval t => vy_eval_trace m t
  | BCall k => function_call_trace m k
  | BVyExec k => vy_exec_trace m k
  end.
Definition body_trace (m : mode) (l : list body_item) : list effect :=
  concat (map (body_item_trace m) l).

(* --- execute_vyxal: input parsing; transpile, exec, and flag post-processing +
   implicit output each under a try whose handler records the error online --- *)
Inductive run_outcome :=
| RunOk (body : list body_item)        (* the printing / evaluating steps of the body, then normal end *)
| RunRaises (body : list body_item).   (* the steps up to the exception *)

Record scenario := {
  sc_inputs : list text_facts;       (* one per input line *)
  sc_all_strings : bool;             (* flag S-dot: inputs kept as strings *)
  sc_transpile_ok : bool;
  sc_show_code : bool;               (* flag c *)
  sc_run : run_outcome;
  sc_flag_O : bool;                  (* flag O: no implicit output *)
  sc_flag_o : bool;                  (* flag o: force the implicit output *)
  sc_final : option pval             (* Some v: the final value prints as v; None: printing it raises at once *)
}.

(* ctx.printed after the body: some vy_print ran *)
Definition is_bprint (b : body_item) : bool := match b with BPrint _ => true | _ => false end.
Definition body_of (r : run_outcome) : list body_item :=
  match r with RunOk b => b | RunRaises b => b end.
(* `not (ctx.printed or "O" in flags) or "o" in flags` *)
Definition sc_implicit (s : scenario) : bool :=
  negb (existsb is_bprint (body_of (sc_run s)) || sc_flag_O s) || sc_flag_o s.

Definition capture (m : mode) : list effect :=
  if online m then [ErrRecord; Exit] else [Raise].

Definition execute_trace (m : mode) (s : scenario) : list effect :=
  (if sc_all_strings s then [] else concat (map (vy_eval_trace m) (sc_inputs s)))
  ++ (if negb (sc_transpile_ok s) then capture m
     else (if sc_show_code s then (if online m then [ErrRecord] else [HostPrint]) else [])
          ++ VyExec
          :: match sc_run s with
             | RunRaises body => body_trace m body ++ capture m
             | RunOk body =>
                 body_trace m body ++ (if sc_implicit s
                          then match sc_final s with
                               | Some v => print_trace m v
                               | None => capture m      (* post-processing / implicit output run under their own try *)
                               end
                          else [])
             end).

(* effects that must not occur online *)
Definition forbidden (e : effect) : bool :=
  match e with HostPrint | PyEval | PyExec => true | _ => false end.
Definition is_raise (e : effect) : bool := match e with Raise => true | _ => false end.

