(* Model of vyxal/parse.py: `_get_branches`, `parse`, `process_parameters`,
   `variable_name`.  The constant tables and the token-kind guards of the syntax
   decisions come from Gen/ParserConsts.v (read from parse.py's AST on every run), so
   the model follows the source when a guard is added or removed.  No proofs here. *)
From Coq Require Import List NArith ZArith Bool.
From Vy Require Import Model.Base Model.Lexer Gen.ParserConsts Gen.Codepage.
Import ListNotations.
Open Scope N_scope.

(* classes that `parse` passes down as `parent` *)
Inductive pkind :=
| PIf | PFor | PWhile | PFnCall | PLambda | PLamMap | PLamFilter | PLamSort | PList
| PMonadic | PDyadic | PTriadic.

Inductive lamop := OpMap | OpFilter | OpSort.

Inductive struct :=
| SGeneric (t : token)
| SBreak (p : option pkind)
| SRecurse (p : option pkind)
| SIf (branches : list (list struct))
| SFor (names : list str) (body : list struct)
| SWhile (cond body : list struct)
| SFnCall (name : str)
| SFnDef (name : str) (params : list str) (body : list struct)
| SLambda (arity : option Z) (body : list struct)      (* None = "default" *)
| SLamOp (op : lamop) (body : list struct)
| SList (items : list (list struct))
| SMod1 (m : N) (a : struct)
| SMod2 (m : N) (a b : struct)
| SMod3 (m : N) (a b c : struct).

Inductive perr := EIndex | EValue | EAssert.
Inductive res (A : Type) := Ok (x : A) | Err (e : perr) | OutOfFuel.
Arguments Ok {A}. Arguments Err {A}. Arguments OutOfFuel {A}.

(* ---- tables --------------------------------------------------------------- *)
Definition openers : str := map (fun t => fst (fst t)) structure_info.
Definition closers : str := map snd structure_info.

Definition class_of_tag (tag : str) : option pkind :=
  if str_eqb tag [73;102;83;116;97;116;101;109;101;110;116] then Some PIf            (* IfStatement *)
  else if str_eqb tag [70;111;114;76;111;111;112] then Some PFor                       (* ForLoop *)
  else if str_eqb tag [87;104;105;108;101;76;111;111;112] then Some PWhile             (* WhileLoop *)
  else if str_eqb tag [70;117;110;99;116;105;111;110;67;97;108;108] then Some PFnCall  (* FunctionCall *)
  else if str_eqb tag [76;97;109;98;100;97] then Some PLambda                          (* Lambda *)
  else if str_eqb tag [76;97;109;98;100;97;77;97;112] then Some PLamMap                (* LambdaMap *)
  else if str_eqb tag [76;97;109;98;100;97;70;105;108;116;101;114] then Some PLamFilter (* LambdaFilter *)
  else if str_eqb tag [76;97;109;98;100;97;83;111;114;116] then Some PLamSort          (* LambdaSort *)
  else if str_eqb tag [76;105;115;116;76;105;116;101;114;97;108] then Some PList       (* ListLiteral *)
  else None.

Fixpoint lookup_open (c : N) (tbl : list (N * list N * N)) : option (pkind * N) :=
  match tbl with
  | [] => None
  | (o, tag, cl) :: r =>
      if N.eqb c o then match class_of_tag tag with Some k => Some (k, cl) | None => None end
      else lookup_open c r
  end.

Definition is_general (t : token) : bool := tkind_eqb (tk t) KGeneral.

(* `token.value in OPENING_CHARACTERS` for the values the lexer produces: a GENERAL
   value is one character, or a digraph whose first character is a digraph prefix
   (never a bracket), so the substring test is a single-character membership *)
Definition value_in (t : token) (chars : str) : bool :=
  match tv t with [c] => mem c chars | _ => false end.
Definition value_is (t : token) (c : N) : bool :=
  match tv t with [x] => N.eqb x c | _ => false end.

Definition guard (flag : bool) (t : token) : bool := negb flag || is_general t.

(* ---- _get_branches ---------------------------------------------------------
   The loop `while tokens and bracket_stack` as a scan: state = the bracket stack
   (innermost first), the branch being filled and the completed branches.
   `gb_step` is one iteration on a non-empty stack `top :: below`. *)
Definition gb_step (t : token) (top : N) (below : list N) (cur : list token)
           (done : list (list token)) : list N * list token * list (list token) :=
  let stack := top :: below in
  if guard gb_open_kind_guarded t && value_in t openers then
    match tv t with
    | [c] => match lookup_open c structure_info with
             | Some (_, cl) => (cl :: stack, cur ++ [t], done)
             | None => (stack, cur ++ [t], done)
             end
    | _ => (stack, cur ++ [t], done)
    end
  else if guard gb_pipe_kind_guarded t && value_is t ch_pipe then
    match below with
    | [] => (stack, [], done ++ [cur])
    | _ => (stack, cur ++ [t], done)
    end
  else if guard gb_close_kind_guarded t && value_in t closers then
    if value_is t top then
      match below with
      | [] => (below, cur, done)
      | _ => (below, cur ++ [t], done)
      end
    else (stack, cur, done)          (* a closer that is not the expected one is dropped *)
  else (stack, cur ++ [t], done).

Fixpoint gb_scan (ts : list token) (stack : list N) (cur : list token)
         (done : list (list token)) : list N * list token * list (list token) * list token :=
  match stack with
  | [] => (stack, cur, done, ts)
  | top :: below =>
      match ts with
      | [] => (stack, cur, done, [])
      | t :: r => let '(s', c', d') := gb_step t top below cur done in gb_scan r s' c' d'
      end
  end.

(* (branches, remaining tokens) *)
Definition get_branches (ts : list token) (stack : list N) (cur : list token)
           (done : list (list token)) : list (list token) * list token :=
  let '(_, c, d, r) := gb_scan ts stack cur done in (d ++ [c], r).

(* ---- name helpers ----------------------------------------------------------- *)
Definition concat_values (ts : list token) : str := flat_map tv ts.

Definition variable_name (ts : list token) : str :=
  filter (fun c => mem c ascii_letters || N.eqb c ch_underscore) (concat_values ts).

Fixpoint split_on (c : N) (s : str) (cur : str) : list str :=
  match s with
  | [] => [cur]
  | x :: r => if N.eqb x c then cur :: split_on c r [] else split_on c r (cur ++ [x])
  end.

Definition ch_colon : N := 58.
Definition ch_star : N := 42.

(* str.isnumeric on the characters that can occur: the translator lists the numeric
   characters of the code page (Python's own str.isnumeric applied to each) *)
Definition is_numeric (s : str) : bool :=
  match s with [] => false | _ => forallb (fun c => mem c numeric_chars) s end.

(* re.sub(r"[^A-Za-z_]", "", p): the class is read from the source *)
Definition sanitize_param (s : str) : str := filter (fun c => mem c param_keep_chars) s.

Definition process_parameters (ts : list token) : str * list str :=
  match split_on ch_colon (concat_values ts) [] with
  | [] => ([], [])
  | name :: ps =>
      (name, map (fun p => if is_numeric p || str_eqb p [ch_star] then p else sanitize_param p) ps)
  end.

(* int(str) for the strings that can reach it: optional ASCII whitespace, optional
   sign, ASCII digits with single underscores between digits; anything else is a
   ValueError (None) *)
Definition is_space (c : N) : bool := mem c [32; 9; 10; 11; 12; 13].
Definition is_digit (c : N) : bool := (48 <=? c) && (c <=? 57).
Fixpoint lstrip (s : str) : str :=
  match s with x :: r => if is_space x then lstrip r else s | [] => [] end.
Definition strip (s : str) : str := rev (lstrip (rev (lstrip s))).
Fixpoint digits_val (s : str) (acc : Z) (prev_digit : bool) : option Z :=
  match s with
  | [] => if prev_digit then Some acc else None
  | x :: r =>
      if is_digit x then digits_val r (acc * 10 + Z.of_N (x - 48))%Z true
      else if N.eqb x ch_underscore && prev_digit then
        match r with y :: _ => if is_digit y then digits_val r acc false else None | [] => None end
      else None
  end.
Definition py_int (s : str) : option Z :=
  match strip s with
  | [] => None
  | x :: r =>
      if N.eqb x 45 then option_map Z.opp (digits_val r 0%Z false)
      else if N.eqb x 43 then digits_val r 0%Z false
      else digits_val (x :: r) 0%Z false
  end.

(* ---- parse -------------------------------------------------------------------- *)
Definition bind {A B} (r : res A) (f : A -> res B) : res B :=
  match r with Ok x => f x | Err e => Err e | OutOfFuel => OutOfFuel end.

Fixpoint map_res {A B} (f : A -> res B) (l : list A) : res (list B) :=
  match l with
  | [] => Ok []
  | x :: r => bind (f x) (fun y => bind (map_res f r) (fun ys => Ok (y :: ys)))
  end.

Definition default_while_cond : list struct := [SGeneric (Tok KNumber [49])].

Definition lambda_shorthand (c : N) : bool := mem c [8317; 8225; 8812].  (* ⁽ ‡ ≬ *)

Definition por (parent : option pkind) (k : pkind) : pkind :=
  match parent with Some p => p | None => k end.

(* what the if/elif ladder of `parse` decides for a head token *)
Inductive action :=
| AEmit (s : option pkind -> struct)   (* append one structure, continue *)
| AOpen (cls : pkind) (cl : N)         (* a structure opens *)
| AMod (n : nat) (m : N)               (* modifier taking n operands *)
| AIgnore                              (* stray closer, "|" or " " *)
| AErr (e : perr).

Definition classify (head : token) : action :=
  match tk head with
  | KString | KCharacter | KVarGet | KVarSet => AEmit (fun _ => SGeneric head)
  | _ =>
    if guard break_kind_guarded head && value_is head break_character then AEmit SBreak
    else if guard recurse_kind_guarded head && value_is head recurse_character then AEmit SRecurse
    else if guard open_kind_guarded head && value_in head openers then
      match tv head with
      | [c] => match lookup_open c structure_info with
               | Some (cls, cl) => AOpen cls cl
               | None => AErr EIndex
               end
      | _ => AErr EIndex
      end
    else if guard monadic_kind_guarded head && value_in head monadic_modifiers then
      match tv head with [m] => AMod 1 m | _ => AErr EIndex end
    else if guard dyadic_kind_guarded head && value_in head dyadic_modifiers then
      match tv head with [m] => AMod 2 m | _ => AErr EIndex end
    else if guard triadic_kind_guarded head && value_in head triadic_modifiers then
      match tv head with [m] => AMod 3 m | _ => AErr EIndex end
    else if is_general head && (value_in head closers || value_in head [32; 124]) then AIgnore
    else AEmit (fun _ => SGeneric head)
  end.

(* turning the branches of one structure into the structure; `rec` is the recursive
   parser (with its remaining fuel) *)
Definition build (rec : option pkind -> list token -> res (list struct))
           (parent : option pkind) (cls : pkind) (branches : list (list token)) : res struct :=
  let last_b := last branches [] in
  let first_b := hd [] branches in
  let single := match branches with [_] => true | _ => false end in
  match cls with
  | PFor =>
      let names := if single then [] else map variable_name (removelast branches) in
      bind (rec (Some PFor) last_b) (fun body => Ok (SFor names body))
  | PWhile =>
      bind (if single then Ok default_while_cond else rec (Some PWhile) first_b)
           (fun cond => bind (rec (Some PWhile) last_b) (fun body => Ok (SWhile cond body)))
  | PFnCall =>
      let '(name, params) := process_parameters first_b in
      if single then
        match params with [] => Ok (SFnCall name) | _ => Err EAssert end
      else bind (rec (Some PFnCall) last_b) (fun body => Ok (SFnDef name params body))
  | PLambda =>
      if single then bind (rec (Some PLambda) last_b) (fun body => Ok (SLambda None body))
      else
        match first_b with
        | [] => Err EIndex
        | t0 :: _ =>
            match py_int (tv t0) with
            | None => Err EValue
            | Some a =>
                if (a <? 0)%Z then Err EValue
                else bind (rec (Some PLambda) last_b) (fun body => Ok (SLambda (Some a) body))
            end
        end
  | PLamMap => bind (rec (Some PLamMap) first_b) (fun b => Ok (SLamOp OpMap b))
  | PLamFilter => bind (rec (Some PLamFilter) first_b) (fun b => Ok (SLamOp OpFilter b))
  | PLamSort => bind (rec (Some PLamSort) first_b) (fun b => Ok (SLamOp OpSort b))
  | PIf => bind (map_res (rec (Some (por parent PIf))) branches) (fun bs => Ok (SIf bs))
  | _ => bind (map_res (rec (Some PList)) branches) (fun bs => Ok (SList bs))   (* list items never inherit the parent *)
  end.

Definition mod_kind (n : nat) : pkind :=
  match n with 1%nat => PMonadic | 2%nat => PDyadic | _ => PTriadic end.

(* dequeue the operands of a modifier from the structures parsed after it *)
Definition take_operands (n : nat) (m : N) (rem : list struct) : res (list struct) :=
  match n, rem with
  | 1%nat, a :: more =>
      Ok ((if lambda_shorthand m then SLambda (Some 1%Z) [a] else SMod1 m a) :: more)
  | 2%nat, a :: b :: more =>
      Ok ((if lambda_shorthand m then SLambda (Some 1%Z) [a; b] else SMod2 m a b) :: more)
  | 3%nat, a :: b :: c :: more =>
      Ok ((if lambda_shorthand m then SLambda (Some 1%Z) [a; b; c] else SMod3 m a b c) :: more)
  | _, _ => Err EIndex
  end.

Fixpoint parse (fuel : nat) (parent : option pkind) (ts : list token) : res (list struct) :=
  match fuel with
  | O => OutOfFuel
  | S f =>
    match ts with
    | [] => Ok []
    | head :: rest =>
      match classify head with
      | AEmit s => bind (parse f parent rest) (fun l => Ok (s parent :: l))
      | AOpen cls cl =>
          let '(branches, after) := get_branches rest [cl] [] [] in
          bind (build (parse f) parent cls branches)
               (fun s => bind (parse f parent after) (fun l => Ok (s :: l)))
      | AMod n m =>
          match rest with
          | [] => Ok []     (* `if not tokens: break` *)
          | _ => bind (parse f (Some (mod_kind n)) rest) (take_operands n m)
          end
      | AIgnore => parse f parent rest
      | AErr e => Err e
      end
    end
  end.

Definition parse_tokens (ts : list token) : res (list struct) := parse (S (length ts)) None ts.
Definition parse_source (s : str) : res (list struct) := parse_tokens (tokenise s).

(* ---- canonical flat encoding (what the correspondence compares) ---------------- *)
Open Scope Z_scope.
Definition enc_str (s : str) : list Z := Z.of_nat (length s) :: map Z.of_N s.
Definition kind_code (k : tkind) : Z :=
  match k with
  | KString => 1 | KNumber => 2 | KCharacter => 3 | KGeneral => 4 | KCompNumber => 5
  | KCompString => 6 | KVarGet => 7 | KVarSet => 8 | KCpNumber => 9
  end.
Definition enc_tok (t : token) : list Z := kind_code (tk t) :: enc_str (tv t).
Definition pkind_code (p : option pkind) : Z :=
  match p with
  | None => 0 | Some PIf => 1 | Some PFor => 2 | Some PWhile => 3 | Some PFnCall => 4
  | Some PLambda => 5 | Some PLamMap => 6 | Some PLamFilter => 7 | Some PLamSort => 8
  | Some PList => 9 | Some PMonadic => 10 | Some PDyadic => 11 | Some PTriadic => 12
  end.
Definition lamop_code (o : lamop) : Z := match o with OpMap => 1 | OpFilter => 2 | OpSort => 3 end.

Fixpoint enc (s : struct) : list Z :=
  let enc_list := fun l => Z.of_nat (length l) :: flat_map enc l in
  match s with
  | SGeneric t => 1 :: enc_tok t
  | SBreak p => [2; pkind_code p]
  | SRecurse p => [3; pkind_code p]
  | SIf bs => 4 :: Z.of_nat (length bs) :: flat_map enc_list bs
  | SFor names body => 5 :: Z.of_nat (length names) :: flat_map enc_str names ++ enc_list body
  | SWhile c b => 6 :: enc_list c ++ enc_list b
  | SFnCall n => 7 :: enc_str n
  | SFnDef n ps b => 8 :: enc_str n ++ Z.of_nat (length ps) :: flat_map enc_str ps ++ enc_list b
  | SLambda a b => 9 :: (match a with None => -1 | Some x => x end) :: enc_list b
  | SLamOp o b => 10 :: lamop_code o :: enc_list b
  | SList items => 11 :: Z.of_nat (length items) :: flat_map enc_list items
  | SMod1 m a => 12 :: Z.of_N m :: enc a
  | SMod2 m a b => 13 :: Z.of_N m :: enc a ++ enc b
  | SMod3 m a b c => 14 :: Z.of_N m :: enc a ++ enc b ++ enc c
  end.
Definition enc_list (l : list struct) : list Z := Z.of_nat (length l) :: flat_map enc l.
Definition enc_res (r : res (list struct)) : list Z :=
  match r with
  | Ok l => 0 :: enc_list l
  | Err EIndex => [1; 1] | Err EValue => [1; 2] | Err EAssert => [1; 3]
  | OutOfFuel => [2]
  end.

Fixpoint zlist_eqb (a b : list Z) : bool :=
  match a, b with
  | [], [] => true
  | x :: a', y :: b' => Z.eqb x y && zlist_eqb a' b'
  | _, _ => false
  end.
