(* Property C18 — generated Python contains program text only as constants.
   Only statements, each closed by `exact`, each followed by Print Assumptions.
   Definitions: Model/Provenance.v (ident_ok, dq_body_ok / dq_body_closed, safe_core,
   safe_line, safe_text, tok_ok, tree_ok); the text model: Model/Transpile.v. *)
From Coq Require Import List NArith ZArith Bool String Ascii.
From Vy Require Import Model.Base Model.Lexer Model.Parser Model.Transpile Model.Provenance
  Gen.ParserConsts Gen.Codepage Gen.Elements
  Proofs.C18Base Proofs.C18Shapes Proofs.C18Lex Proofs.C18Proofs.
Import ListNotations.
Open Scope N_scope.

(* ---- string constants ---------------------------------------------------------------------------
   Whatever the string is and whatever the dictionary decompression returns, the re-escaped
   text cannot close the literal: no raw double quote, no raw newline, it ends outside an
   escape pair, and no raw carriage return either (which Python would read as the end of the
   line): it is the body of ONE well-terminated literal. *)
Theorem C18_string_closed : forall (undict : str -> str) s,
  dq_body_closed (escape_string (undict s)) = true.
Proof. exact (fun undict s => escape_closed (undict s)). Qed.
Print Assumptions C18_string_closed.

Theorem C18_string : forall (undict : str -> str) s, dq_body_ok (escape_string (undict s)) = true.
Proof. exact (fun undict s => escape_strict_all (undict s)). Qed.
Print Assumptions C18_string.

(* ---- identifiers: the character classes are re-read from the re.sub calls on every run ---------- *)
Theorem C18_ident_for : forall name, ident_ok (keep re_keep_for name) = true.
Proof. exact (fun name => keep_ident re_keep_for name re_keep_for_ident). Qed.
Print Assumptions C18_ident_for.

Theorem C18_ident_fncall : forall name, ident_ok (keep re_keep_fncall name) = true.
Proof. exact (fun name => keep_ident re_keep_fncall name re_keep_fncall_ident). Qed.
Print Assumptions C18_ident_fncall.

Theorem C18_ident_fndef : forall name, ident_ok (keep re_keep_fndef name) = true.
Proof. exact (fun name => keep_ident re_keep_fndef name re_keep_fndef_ident). Qed.
Print Assumptions C18_ident_fndef.

Theorem C18_ident_fnparam : forall name, ident_ok (keep re_keep_fnparam name) = true.
Proof. exact (fun name => keep_ident re_keep_fnparam name re_keep_fnparam_ident). Qed.
Print Assumptions C18_ident_fnparam.

(* parse.py: process_parameters and variable_name *)
Theorem C18_ident_param : forall p, ident_ok (sanitize_param p) = true.
Proof. exact sanitize_param_ident. Qed.
Print Assumptions C18_ident_param.

Theorem C18_ident_loopvar : forall ts, ident_ok (variable_name ts) = true.
Proof. exact variable_name_ident. Qed.
Print Assumptions C18_ident_loopvar.

(* variable tokens are not sanitised by the transpiler: the lexer never emits another character *)
Theorem C18_ident_var : forall dv src t, In t (tokenise_dv dv src) ->
  (tk t = KVarGet \/ tk t = KVarSet) -> forallb is_name_char (tv t) = true /\ ident_ok (tv t) = true.
Proof. exact lexer_var_tokens. Qed.
Print Assumptions C18_ident_var.

(* ---- numbers ------------------------------------------------------------------------------------- *)
Theorem C18_number : forall dv src t, In t (tokenise_dv dv src) -> tk t = KNumber ->
  forallb num_src_char (tv t) = true /\
  exists p, num_payload_ok p = true /\
    (number_text (tv t) = L "stack.append(sympy.Rational(""" ++ p ++ L """))"
     \/ number_text (tv t) = L "stack.append(sympy.nsimplify(""" ++ p ++ L """))").
Proof. exact lexer_number_tokens. Qed.
Print Assumptions C18_number.

Theorem C18_decimal : forall z, is_dec_Z (Z_to_dec z) = true.
Proof. exact Z_to_dec_dec. Qed.
Print Assumptions C18_decimal.

(* ---- characters: every entry of Python's repr table is one well-formed literal -------------------- *)
Theorem C18_char_table : forallb py_literal_ok (map snd char_reprs) = true.
Proof. exact char_reprs_literals. Qed.
Print Assumptions C18_char_table.

(* ---- tokens --------------------------------------------------------------------------------------- *)
Theorem C18_token : forall (undict : str -> str) dv src t n x, In t (tokenise_dv dv src) ->
  token_text undict t = TOk x -> safe_text false (indent_str x n).
Proof. exact lexer_token_safe. Qed.
Print Assumptions C18_token.

(* ---- any tree whose variable / number tokens carry what the lexer guarantees ------------------------ *)
Theorem C18_tree : forall (strict : bool) (undict : str -> str) p indent c text c',
  tree_ok (fun t => tok_ok strict undict t = true) p ->
  tr undict p indent c = TOk (text, c') -> safe_text strict text.
Proof. exact (fun strict undict p indent c text c' Hok => tree_safe strict undict p Hok indent c text c'). Qed.
Print Assumptions C18_tree.

(* ---- whatever string is given to the transpiler (any dictionary, both lexer modes) ------------------ *)
Theorem C18 : forall (undict : str -> str) dv src l text,
  parse_tokens (tokenise_dv dv src) = Ok l -> transpile_ast undict l = TOk text ->
  safe_text false text.
Proof. exact source_safe_any. Qed.
Print Assumptions C18.

Theorem C18_nodict : forall src text, transpile_nodict src = OText text -> safe_text false text.
Proof. exact source_safe. Qed.
Print Assumptions C18_nodict.

(* with the exact automaton (dq_body_ok) the statement needs: no carriage return in the source *)
Theorem C18_strict_partial : forall src text,
  mem 13 src = false -> transpile_nodict src = OText text -> safe_text true text.
Proof. exact source_safe_strict. Qed.
Print Assumptions C18_strict_partial.

(* "every physical line is a safe line" is false: backslash-newline inside a string *)
Theorem C18_physical_lines_refuted : exists text,
  transpile_nodict continuation_src = OText text /\ forallb (safe_line false) (lines text) = false.
Proof. exact physical_lines_refuted. Qed.
Print Assumptions C18_physical_lines_refuted.

(* ---- non-vacuity and sanity of the predicate ---------------------------------------------------------- *)
Example C18_nonvacuous : exists text, transpile_nodict demo_src = OText text /\ mem 13 demo_src = false.
Proof. exact source_safe_nonvacuous. Qed.
Print Assumptions C18_nonvacuous.

Example C18_rejects_subscript : safe_line false (L "VAR_a[b] =pop(arg_stack, 1, ctx=ctx)") = false.
Proof. exact unsafe_subscript. Qed.
Print Assumptions C18_rejects_subscript.

Example C18_rejects_statement : safe_line false (L "__import__('os').system('x')") = false.
Proof. exact unsafe_statement. Qed.
Print Assumptions C18_rejects_statement.

Example C18_rejects_early_close :
  safe_line false (L "stack.append(""a"");__import__('os').system('x');(""b"")") = false.
Proof. exact unsafe_early_close. Qed.
Print Assumptions C18_rejects_early_close.
