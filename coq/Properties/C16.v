(* Property C16 — list builtins obey their defining laws. (placeholder while building) *)
From Coq Require Import List ZArith.
From Vy Require Import Model.ListOps.
