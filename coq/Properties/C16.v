(* Property C16 — list builtins obey their defining laws.
   Only statements about Model/ListOps.v, each closed by `exact`, each followed by Print Assumptions.
   The model is tied to vyxal/elements.py and vyxal/helpers.py by the correspondence of props/C16.py. *)
From Coq Require Import List ZArith Bool Arith Lia Permutation Sorted.
From Vy Require Import Model.ListOps Proofs.ListOpsProofs.
Import ListNotations.
Open Scope Z_scope.

(* sort returns an ordered list ... *)
Theorem C16_sort_ordered : forall l, Sorted Z.le (sort l).
Proof. exact sort_sorted. Qed.
Print Assumptions C16_sort_ordered.

(* ... that is a permutation of its argument ... *)
Theorem C16_sort_permutation : forall l, Permutation (sort l) l.
Proof. exact sort_perm. Qed.
Print Assumptions C16_sort_permutation.

(* ... and it is the only such list *)
Theorem C16_sort_unique : forall l s, Sorted Z.le s -> Permutation s l -> s = sort l.
Proof. exact sort_unique. Qed.
Print Assumptions C16_sort_unique.

Theorem C16_sort_idempotent : forall l, sort (sort l) = sort l.
Proof. exact sort_idempotent. Qed.
Print Assumptions C16_sort_idempotent.

(* reverse is list reversal, an involution *)
Theorem C16_reverse_is_rev : forall l, reverse l = rev l.
Proof. exact reverse_rev. Qed.
Print Assumptions C16_reverse_is_rev.

Theorem C16_reverse_involutive : forall l, reverse (reverse l) = l.
Proof. exact reverse_involutive. Qed.
Print Assumptions C16_reverse_involutive.

Theorem C16_reverse_index : forall l i, (i < length l)%nat -> nth i (reverse l) 0 = nth (length l - S i) l 0.
Proof. exact reverse_nth. Qed.
Print Assumptions C16_reverse_index.

(* uniquify: no duplicates, the same members, first occurrences in order *)
Theorem C16_uniquify_nodup : forall l, NoDup (uniquify l).
Proof. exact uniquify_NoDup. Qed.
Print Assumptions C16_uniquify_nodup.

Theorem C16_uniquify_members : forall l y, In y (uniquify l) <-> In y l.
Proof. exact uniquify_In. Qed.
Print Assumptions C16_uniquify_members.

(* the result is exactly the items at the positions whose value does not occur earlier *)
Theorem C16_uniquify_first_occurrences : forall l, uniquify l = first_occurrences l.
Proof. exact uniquify_first_occurrences. Qed.
Print Assumptions C16_uniquify_first_occurrences.

Theorem C16_uniquify_fixes_nodup : forall l, NoDup l -> uniquify l = l.
Proof. exact uniquify_idempotent_on_NoDup. Qed.
Print Assumptions C16_uniquify_fixes_nodup.

(* flatten is the concatenation of the leaves, left to right (relational definition, both directions) *)
Theorem C16_flatten_leaves : forall t, leaves_of t (flatten t).
Proof. exact flatten_leaves. Qed.
Print Assumptions C16_flatten_leaves.

Theorem C16_flatten_only_leaves : forall t l, leaves_of t l -> l = flatten t.
Proof. exact leaves_functional. Qed.
Print Assumptions C16_flatten_only_leaves.

Theorem C16_flatten_flat : forall l, deep_flatten (map Leaf l) = l.
Proof. exact deep_flatten_flat. Qed.
Print Assumptions C16_flatten_flat.

Theorem C16_flatten_app : forall a b, deep_flatten (a ++ b) = deep_flatten a ++ deep_flatten b.
Proof. exact deep_flatten_app. Qed.
Print Assumptions C16_flatten_app.

(* sum is the right fold of + from 0 (also on the empty list) *)
Theorem C16_sum_fold : forall l, vsum l = fold_right Z.add 0 l.
Proof. exact vsum_fold. Qed.
Print Assumptions C16_sum_fold.

(* product is the fold of * from 1 on NON-EMPTY lists; the implementation (and the model) return 0 on [] *)
Theorem C16_product_fold : forall l, l <> [] -> product l = fold_right Z.mul 1 l.
Proof. exact product_fold. Qed.
Print Assumptions C16_product_fold.

(* the empty product is 0, not 1: known finding C16-product-empty *)
Theorem C16_product_empty_refuted : exists l, product l <> fold_right Z.mul 1 l.
Proof. exact product_empty_refuted. Qed.
Print Assumptions C16_product_empty_refuted.

(* max / min: a member bounding all members; no value exactly on the empty list *)
Theorem C16_maximum_spec : forall l, l <> [] -> exists m, maximum l = Some m /\ In m l /\ Forall (fun y => y <= m) l.
Proof. exact maximum_spec. Qed.
Print Assumptions C16_maximum_spec.

Theorem C16_minimum_spec : forall l, l <> [] -> exists m, minimum l = Some m /\ In m l /\ Forall (fun y => m <= y) l.
Proof. exact minimum_spec. Qed.
Print Assumptions C16_minimum_spec.

Theorem C16_maximum_fold : forall x r, maximum (x :: r) = Some (fold_left Z.max r x).
Proof. exact maximum_fold. Qed.
Print Assumptions C16_maximum_fold.

Theorem C16_minimum_fold : forall x r, minimum (x :: r) = Some (fold_left Z.min r x).
Proof. exact minimum_fold. Qed.
Print Assumptions C16_minimum_fold.

Theorem C16_maximum_empty : forall l, maximum l = None <-> l = [].
Proof. exact maximum_none. Qed.
Print Assumptions C16_maximum_empty.

Theorem C16_minimum_empty : forall l, minimum l = None <-> l = [].
Proof. exact minimum_none. Qed.
Print Assumptions C16_minimum_empty.

(* cumulative sums: as many as items, the i-th is the sum of the first i+1 items *)
Theorem C16_cumsum_length : forall l, length (cumsum l) = length l.
Proof. exact cumsum_length. Qed.
Print Assumptions C16_cumsum_length.

Theorem C16_cumsum_index : forall l i, (i < length l)%nat -> nth i (cumsum l) 0 = vsum (firstn (S i) l).
Proof. exact cumsum_nth. Qed.
Print Assumptions C16_cumsum_index.

(* deltas: adjacent differences (next minus previous) *)
Theorem C16_deltas_length : forall l, length (deltas l) = pred (length l).
Proof. exact deltas_length. Qed.
Print Assumptions C16_deltas_length.

Theorem C16_deltas_index : forall l i, (S i < length l)%nat -> nth i (deltas l) 0 = nth (S i) l 0 - nth i l 0.
Proof. exact deltas_nth. Qed.
Print Assumptions C16_deltas_index.

Theorem C16_deltas_of_cumsum : forall l, deltas (cumsum l) = tl l.
Proof. exact deltas_cumsum. Qed.
Print Assumptions C16_deltas_of_cumsum.

Theorem C16_cumsum_of_deltas : forall l, l <> [] -> cumsum (head l :: deltas l) = l.
Proof. exact cumsum_deltas. Qed.
Print Assumptions C16_cumsum_of_deltas.

(* zip: as long as the longer argument, the i-th pair holds the i-th items, 0 where one is missing *)
Theorem C16_zip_length : forall a b, length (zip a b) = Nat.max (length a) (length b).
Proof. exact zip_length. Qed.
Print Assumptions C16_zip_length.

Theorem C16_zip_index : forall a b i, nth i (zip a b) (0, 0) = (nth i a 0, nth i b 0).
Proof. exact zip_nth. Qed.
Print Assumptions C16_zip_index.

(* transpose of a rectangular matrix: entry (j, i) is entry (i, j); shape swapped; involution *)
Theorem C16_transpose_rectangular : forall rows m i j, Forall (fun r => length r = m) rows -> (i < length rows)%nat -> (j < m)%nat -> nth i (nth j (transpose rows) []) 0 = nth j (nth i rows []) 0.
Proof. exact transpose_nth. Qed.
Print Assumptions C16_transpose_rectangular.

Theorem C16_transpose_shape : forall rows m, rows <> [] -> Forall (fun r => length r = m) rows -> length (transpose rows) = m /\ Forall (fun c => length c = length rows) (transpose rows).
Proof. exact transpose_shape. Qed.
Print Assumptions C16_transpose_shape.

Theorem C16_transpose_involutive : forall rows m, rows <> [] -> (0 < m)%nat -> Forall (fun r => length r = m) rows -> transpose (transpose rows) = rows.
Proof. exact transpose_involutive. Qed.
Print Assumptions C16_transpose_involutive.

Theorem C16_transpose_length : forall rows, length (transpose rows) = max_len rows.
Proof. exact transpose_length. Qed.
Print Assumptions C16_transpose_length.

(* interleave / uninterleave are mutual inverses (|b| <= |a| <= |b|+1 one way, always the other way) *)
Theorem C16_uninterleave_interleave : forall a b, (length b <= length a <= S (length b))%nat -> uninterleave (interleave a b) = (a, b).
Proof. exact uninterleave_interleave. Qed.
Print Assumptions C16_uninterleave_interleave.

Theorem C16_interleave_uninterleave : forall l, interleave (evens l) (odds l) = l.
Proof. exact interleave_uninterleave. Qed.
Print Assumptions C16_interleave_uninterleave.

Theorem C16_uninterleave_slices : forall l i, nth i (evens l) 0 = nth (2 * i) l 0 /\ nth i (odds l) 0 = nth (2 * i + 1) l 0.
Proof. exact uninterleave_slices. Qed.
Print Assumptions C16_uninterleave_slices.

Theorem C16_interleave_alternates : forall a b i, length a = length b -> nth (2 * i) (interleave a b) 0 = nth i a 0 /\ nth (2 * i + 1) (interleave a b) 0 = nth i b 0.
Proof. exact interleave_nth. Qed.
Print Assumptions C16_interleave_alternates.

(* the rest of the longer argument is appended *)
Theorem C16_interleave_leftover_left : forall a b c, length a = length b -> interleave (a ++ c) b = interleave a b ++ c.
Proof. exact interleave_leftover_left. Qed.
Print Assumptions C16_interleave_leftover_left.

Theorem C16_interleave_leftover_right : forall a b c, length a = length b -> interleave a (b ++ c) = interleave a b ++ c.
Proof. exact interleave_leftover_right. Qed.
Print Assumptions C16_interleave_leftover_right.

Theorem C16_interleave_permutation : forall a b, Permutation (interleave a b) (a ++ b).
Proof. exact interleave_perm. Qed.
Print Assumptions C16_interleave_permutation.

(* wrap k (k > 0): the chunks concatenate back, all but the last have length k, the last is non-empty and not longer; k = 0 gives no chunk *)
Theorem C16_wrap_concat : forall k l, (0 < k)%nat -> concat (wrap k l) = l.
Proof. exact wrap_concat. Qed.
Print Assumptions C16_wrap_concat.

Theorem C16_wrap_chunks : forall k l, (0 < k)%nat -> Forall (fun c => length c = k) (removelast (wrap k l)) /\ Forall (fun c => (0 < length c <= k)%nat) (wrap k l).
Proof. exact wrap_chunks. Qed.
Print Assumptions C16_wrap_chunks.

Theorem C16_wrap_zero : forall l, wrap 0 l = [].
Proof. exact wrap_zero. Qed.
Print Assumptions C16_wrap_zero.

(* prefixes: the n non-empty prefixes, shortest first *)
Theorem C16_prefixes_enumerated : forall l, prefixes l = map (fun i => firstn (S i) l) (seq 0 (length l)).
Proof. exact prefixes_spec. Qed.
Print Assumptions C16_prefixes_enumerated.

Theorem C16_prefixes_members : forall l p, In p (prefixes l) <-> p <> [] /\ exists b, l = p ++ b.
Proof. exact prefixes_In. Qed.
Print Assumptions C16_prefixes_members.

(* suffixes: the n non-empty suffixes, longest first *)
Theorem C16_suffixes_enumerated : forall l, suffixes l = map (fun i => skipn i l) (seq 0 (length l)).
Proof. exact suffixes_spec. Qed.
Print Assumptions C16_suffixes_enumerated.

Theorem C16_suffixes_members : forall l s, In s (suffixes l) <-> s <> [] /\ exists a, l = a ++ s.
Proof. exact suffixes_In. Qed.
Print Assumptions C16_suffixes_members.

(* sublists: exactly the contiguous non-empty sublists, n(n+1)/2 of them *)
Theorem C16_sublists_members : forall l s, In s (sublists l) <-> s <> [] /\ exists a b, l = a ++ s ++ b.
Proof. exact sublists_In. Qed.
Print Assumptions C16_sublists_members.

Theorem C16_sublists_count : forall l, (2 * length (sublists l) = length l * (length l + 1))%nat.
Proof. exact sublists_count. Qed.
Print Assumptions C16_sublists_count.

(* powerset: 2^n members, exactly the subsequences, distinct when the items are, [] first, in the order of the implementation's loop *)
Theorem C16_powerset_count : forall l, length (powerset l) = (2 ^ length l)%nat.
Proof. exact powerset_length. Qed.
Print Assumptions C16_powerset_count.

Theorem C16_powerset_members : forall l s, In s (powerset l) <-> subseq s l.
Proof. exact powerset_In. Qed.
Print Assumptions C16_powerset_members.

Theorem C16_powerset_nodup : forall l, NoDup l -> NoDup (powerset l).
Proof. exact powerset_NoDup. Qed.
Print Assumptions C16_powerset_nodup.

Theorem C16_powerset_loop_order : forall l, powerset_loop l = powerset l.
Proof. exact powerset_loop_eq. Qed.
Print Assumptions C16_powerset_loop_order.

(* permutations: n! members, exactly the rearrangements, distinct when the items are *)
Theorem C16_permutations_count : forall l, length (permutations l) = fact (length l).
Proof. exact permutations_length. Qed.
Print Assumptions C16_permutations_count.

Theorem C16_permutations_members : forall l p, In p (permutations l) <-> Permutation l p.
Proof. exact permutations_In. Qed.
Print Assumptions C16_permutations_members.

Theorem C16_permutations_nodup : forall l, NoDup l -> NoDup (permutations l).
Proof. exact permutations_NoDup. Qed.
Print Assumptions C16_permutations_nodup.

(* cartesian product: |a||b| pairs, exactly the pairs of members, distinct when the items are; the anti-diagonal order of the implementation holds the same pairs *)
Theorem C16_cartesian_count : forall a b, length (cart a b) = (length a * length b)%nat.
Proof. exact cart_length. Qed.
Print Assumptions C16_cartesian_count.

Theorem C16_cartesian_members : forall a b x y, In (x, y) (cart a b) <-> In x a /\ In y b.
Proof. exact cart_In. Qed.
Print Assumptions C16_cartesian_members.

Theorem C16_cartesian_nodup : forall a b, NoDup a -> NoDup b -> NoDup (cart a b).
Proof. exact cart_NoDup. Qed.
Print Assumptions C16_cartesian_nodup.

Theorem C16_cartesian_diagonal_members : forall a b x y, In (x, y) (cart_diag a b) <-> In x a /\ In y b.
Proof. exact cart_diag_In. Qed.
Print Assumptions C16_cartesian_diagonal_members.

(* the output order of the implementation (anti-diagonals) is a permutation of the row-major product: same count, same distinctness *)
Theorem C16_cartesian_diagonal_permutation : forall a b, Permutation (cart_diag a b) (cart a b).
Proof. exact cart_diag_perm. Qed.
Print Assumptions C16_cartesian_diagonal_permutation.

Theorem C16_cartesian_diagonal_count : forall a b, length (cart_diag a b) = (length a * length b)%nat.
Proof. exact cart_diag_length. Qed.
Print Assumptions C16_cartesian_diagonal_count.

Theorem C16_cartesian_diagonal_nodup : forall a b, NoDup a -> NoDup b -> NoDup (cart_diag a b).
Proof. exact cart_diag_NoDup. Qed.
Print Assumptions C16_cartesian_diagonal_nodup.

(* count / contains / find *)
Theorem C16_count_occurrences : forall x l, count x l = Z.of_nat (count_occ Z.eq_dec l x).
Proof. exact count_count_occ. Qed.
Print Assumptions C16_count_occurrences.

Theorem C16_contains_member : forall x l, contains x l = true <-> In x l.
Proof. exact contains_In. Qed.
Print Assumptions C16_contains_member.

Theorem C16_find_absent : forall x l, find x l = -1 <-> ~ In x l.
Proof. exact find_absent. Qed.
Print Assumptions C16_find_absent.

Theorem C16_find_first_index : forall x l, In x l -> exists i, find x l = Z.of_nat i /\ nth_error l i = Some x /\ ~ In x (firstn i l).
Proof. exact find_first. Qed.
Print Assumptions C16_find_first_index.

(* group consecutive: concatenates back, every group is a non-empty run of one value, neighbouring groups differ *)
Theorem C16_group_concat : forall l, concat (group_consecutive l) = l.
Proof. exact group_concat. Qed.
Print Assumptions C16_group_concat.

Theorem C16_group_runs : forall l, Forall run (group_consecutive l).
Proof. exact group_runs. Qed.
Print Assumptions C16_group_runs.

Theorem C16_group_neighbours_differ : forall l, Sorted heads_differ (group_consecutive l).
Proof. exact group_neighbours. Qed.
Print Assumptions C16_group_neighbours_differ.

(* counts: (x, count x) for the first occurrences; the counts add up to the length *)
Theorem C16_counts_definition : forall l, counts l = map (fun x => (x, count x l)) (uniquify l).
Proof. exact counts_def. Qed.
Print Assumptions C16_counts_definition.

Theorem C16_counts_members : forall l x c, In (x, c) (counts l) <-> In x l /\ c = count x l.
Proof. exact counts_In. Qed.
Print Assumptions C16_counts_members.

Theorem C16_counts_total : forall l, vsum (map snd (counts l)) = Z.of_nat (length l).
Proof. exact counts_total. Qed.
Print Assumptions C16_counts_total.

(* grade up / down: a permutation of the positions that sorts; equal items keep their order (stable) *)
Theorem C16_grade_up_permutation : forall l, Permutation (grade_up l) (seq 0 (length l)).
Proof. exact grade_up_perm. Qed.
Print Assumptions C16_grade_up_permutation.

Theorem C16_grade_up_sorts : forall l, map (value l) (grade_up l) = sort l.
Proof. exact grade_up_sorts. Qed.
Print Assumptions C16_grade_up_sorts.

Theorem C16_grade_up_stable : forall l, StronglySorted (up_before l) (grade_up l).
Proof. exact grade_up_stable. Qed.
Print Assumptions C16_grade_up_stable.

Theorem C16_grade_down_permutation : forall l, Permutation (grade_down l) (seq 0 (length l)).
Proof. exact grade_down_perm. Qed.
Print Assumptions C16_grade_down_permutation.

Theorem C16_grade_down_sorts : forall l, map (value l) (grade_down l) = rev (sort l).
Proof. exact grade_down_reverse_sort. Qed.
Print Assumptions C16_grade_down_sorts.

Theorem C16_grade_down_stable : forall l, StronglySorted (down_before l) (grade_down l).
Proof. exact grade_down_stable. Qed.
Print Assumptions C16_grade_down_stable.

(* head, tail, head_remove, tail_remove, length *)
Theorem C16_head_cons : forall l, l <> [] -> l = head l :: head_remove l.
Proof. exact head_cons. Qed.
Print Assumptions C16_head_cons.

Theorem C16_tail_snoc : forall l, l <> [] -> l = tail_remove l ++ [tail l].
Proof. exact tail_snoc. Qed.
Print Assumptions C16_tail_snoc.

Theorem C16_head_tail_empty : head [] = 0 /\ tail [] = 0 /\ head_remove [] = [] /\ tail_remove [] = [].
Proof. exact head_tail_empty. Qed.
Print Assumptions C16_head_tail_empty.

Theorem C16_tail_is_last : forall l, tail l = last l 0.
Proof. exact tail_last. Qed.
Print Assumptions C16_tail_is_last.

Theorem C16_tail_remove_is_removelast : forall l, tail_remove l = removelast l.
Proof. exact tail_remove_removelast. Qed.
Print Assumptions C16_tail_remove_is_removelast.

Theorem C16_length_spec : forall l, length_ l = Z.of_nat (length l) /\ length_ (head_remove l) = Z.max 0 (length_ l - 1) /\ length_ (tail_remove l) = Z.max 0 (length_ l - 1).
Proof. exact length_spec. Qed.
Print Assumptions C16_length_spec.

(* ---- non-vacuity: the hypotheses are satisfiable, the orders are the implementation's ---- *)
Example C16_product_fold_nonvacuous : product [2; -3; 4] = -24 /\ [2; -3; 4] <> [].
Proof. exact ex_product_fold_nonvacuous. Qed.
Print Assumptions C16_product_fold_nonvacuous.

Example C16_maximum_spec_nonvacuous : maximum [1; 3; 2] = Some 3 /\ minimum [1; 3; 2] = Some 1.
Proof. exact ex_maximum_spec_nonvacuous. Qed.
Print Assumptions C16_maximum_spec_nonvacuous.

Example C16_uninterleave_interleave_nonvacuous : uninterleave (interleave [1; 2; 3] [4; 5]) = ([1; 2; 3], [4; 5]) /\ (length [4; 5] <= length [1; 2; 3] <= S (length [4; 5]))%nat.
Proof. exact ex_uninterleave_interleave_nonvacuous. Qed.
Print Assumptions C16_uninterleave_interleave_nonvacuous.

Example C16_uninterleave_interleave_hypothesis_needed : uninterleave (interleave [1] [4; 5; 6]) <> ([1], [4; 5; 6]).
Proof. exact ex_uninterleave_interleave_hypothesis_needed. Qed.
Print Assumptions C16_uninterleave_interleave_hypothesis_needed.

Example C16_wrap_nonvacuous : wrap 2 [1; 2; 3; 4; 5] = [[1; 2]; [3; 4]; [5]] /\ (0 < 2)%nat.
Proof. exact ex_wrap_nonvacuous. Qed.
Print Assumptions C16_wrap_nonvacuous.

Example C16_transpose_nonvacuous : transpose [[1; 2; 3]; [4; 5; 6]] = [[1; 4]; [2; 5]; [3; 6]] /\ Forall (fun r => length r = 3%nat) [[1; 2; 3]; [4; 5; 6]].
Proof. exact ex_transpose_nonvacuous. Qed.
Print Assumptions C16_transpose_nonvacuous.

Example C16_transpose_ragged_not_involutive : transpose (transpose [[1; 2]; [3]; [4; 5; 6]]) <> [[1; 2]; [3]; [4; 5; 6]].
Proof. exact ex_transpose_ragged_not_involutive. Qed.
Print Assumptions C16_transpose_ragged_not_involutive.

Example C16_nodup_nonvacuous : NoDup [3; 1; 2] /\ length (permutations [3; 1; 2]) = 6%nat /\ length (powerset [3; 1; 2]) = 8%nat.
Proof. exact ex_nodup_nonvacuous. Qed.
Print Assumptions C16_nodup_nonvacuous.

Example C16_permutations_order : permutations [3; 1; 2] = [[3; 1; 2]; [3; 2; 1]; [1; 3; 2]; [1; 2; 3]; [2; 3; 1]; [2; 1; 3]].
Proof. exact ex_permutations_order. Qed.
Print Assumptions C16_permutations_order.

Example C16_find_nonvacuous : find 2 [1; 2; 1; 2] = 1 /\ find 7 [1; 2] = -1 /\ In 2 [1; 2; 1; 2].
Proof. exact ex_find_nonvacuous. Qed.
Print Assumptions C16_find_nonvacuous.

Example C16_deltas_nonvacuous : deltas [3; 1; 2] = [-2; 1] /\ cumsum [3; 1; 2] = [3; 4; 6].
Proof. exact ex_deltas_nonvacuous. Qed.
Print Assumptions C16_deltas_nonvacuous.

Example C16_grade_nonvacuous : grade_up [1; 1; 2; 1; 3; 2] = [0; 1; 3; 2; 5; 4]%nat /\ grade_down [1; 1; 2; 1; 3; 2] = [4; 2; 5; 0; 1; 3]%nat.
Proof. exact ex_grade_nonvacuous. Qed.
Print Assumptions C16_grade_nonvacuous.

Example C16_cartesian_diagonal_order : cart_diag [1; 2] [4; 5; 6] = [(1, 4); (1, 5); (2, 4); (1, 6); (2, 5); (2, 6)].
Proof. exact ex_cartesian_diagonal_order. Qed.
Print Assumptions C16_cartesian_diagonal_order.

Example C16_head_cons_nonvacuous : [5; 6] = head [5; 6] :: head_remove [5; 6] /\ [5; 6] = tail_remove [5; 6] ++ [tail [5; 6]].
Proof. exact ex_head_cons_nonvacuous. Qed.
Print Assumptions C16_head_cons_nonvacuous.

(* ---- the same laws on the element semantics of the C01 core (Model/Values.v) ------------------------------
   Ṙ m ∞ z U and the stack rotations „ ‟ as Machine.v / RefSem.v execute them, for values of every kind. *)
From Vy Require Model.Values Proofs.C16Core.

Theorem C16_core_reverse_involution : forall l,
  exists r, Values.reverse_v (Values.VList l) = Some r /\ Values.reverse_v r = Some (Values.VList l).
Proof. exact C16Core.reverse_list_involutive. Qed.
Print Assumptions C16_core_reverse_involution.

Theorem C16_core_reverse_involution_str : forall t,
  exists r, Values.reverse_v (Values.VStr t) = Some r /\ Values.reverse_v r = Some (Values.VStr t).
Proof. exact C16Core.reverse_str_involutive. Qed.
Print Assumptions C16_core_reverse_involution_str.

Theorem C16_core_rotations_inverse : forall l, l <> [] ->
  (exists m, C16Core.rot_down l = Some m /\ C16Core.rot_up m = Some l) /\
  (exists m, C16Core.rot_up l = Some m /\ C16Core.rot_down m = Some l).
Proof. intros l H. split; [exact (C16Core.rot_down_up l H)|exact (C16Core.rot_up_down l H)]. Qed.
Print Assumptions C16_core_rotations_inverse.

Theorem C16_core_rotations_are_the_elements : forall s,
  Values.elem_more 8222%N s = Values.stack_op C16Core.rot_up s /\ Values.elem_more 8223%N s = Values.stack_op C16Core.rot_down s.
Proof. exact C16Core.rotations_are_the_elements. Qed.
Print Assumptions C16_core_rotations_are_the_elements.

Theorem C16_core_mirror_palindrome : forall l : list Values.value,
  rev (l ++ rev l) = l ++ rev l /\ rev (l ++ rev (removelast l)) = l ++ rev (removelast l).
Proof. intro l. split; [exact (C16Core.mirror_palindrome l)|exact (C16Core.palindromise_palindrome l)]. Qed.
Print Assumptions C16_core_mirror_palindrome.

Theorem C16_core_zip : forall la lb,
  Values.zip0 la la = map (fun x => Values.VList [x; x]) la /\ length (Values.zip0 la lb) = Nat.max (length la) (length lb).
Proof. intros la lb. split; [exact (C16Core.zip0_self la)|exact (C16Core.zip0_length la lb)]. Qed.
Print Assumptions C16_core_zip.

Theorem C16_core_uniquify : forall eqb l seen x,
  In x (Values.nodup_by eqb seen l) -> In x l /\ existsb (eqb x) seen = false.
Proof. intros eqb l seen x H. split; [exact (C16Core.nodup_by_sublist eqb l seen x H)|exact (C16Core.nodup_by_fresh eqb l seen x H)]. Qed.
Print Assumptions C16_core_uniquify.

Example C16_core_rotate_example :
  C16Core.stk_after (Values.elem_more 8222%N) [Values.VInt 3; Values.VInt 2; Values.VInt 1] = Some [Values.VInt 1; Values.VInt 3; Values.VInt 2]
  /\ C16Core.stk_after (Values.elem_more 8223%N) [Values.VInt 1; Values.VInt 3; Values.VInt 2] = Some [Values.VInt 3; Values.VInt 2; Values.VInt 1].
Proof. exact C16Core.rotate_example. Qed.
Print Assumptions C16_core_rotate_example.
