(* Property C17 — number-theory builtins agree with their textbook definitions.
   Only statements, each closed by `exact`, each followed by Print Assumptions.
   The model (Model/NumTheory.v) is tied to vyxal/elements.py by props/C17.py. *)
From Coq Require Import List ZArith NArith Bool Znumtheory Sorted.
From Vy Require Import Model.NumTheory Proofs.NumTheoryProofs.
Import ListNotations.
Open Scope Z_scope.

(* primality: trial division decides Znumtheory.prime, for every integer *)
Theorem C17_is_prime : forall n, is_prime n = true <-> prime n.
Proof. exact is_prime_correct. Qed.
Print Assumptions C17_is_prime.

(* prime factors with multiplicity: product n, all prime (n = 0 excluded: 0 has no
   factorisation).  The model's list is ascending -- a fact about the model only: a
   factorisation is a multiset, the implementation's list is compared after sorting *)
Theorem C17_prime_factors : forall n, 1 <= n ->
  prod (prime_factors n) = n /\ Forall prime (prime_factors n) /\
  StronglySorted Z.le (prime_factors n).
Proof. exact prime_factors_correct. Qed.
Print Assumptions C17_prime_factors.

Theorem C17_prime_factors_complete : forall n p, 1 <= n ->
  (In p (prime_factors n) <-> prime p /\ (p | n)).
Proof. exact prime_factors_complete. Qed.
Print Assumptions C17_prime_factors_complete.

Theorem C17_distinct_prime_factors : forall n, 1 <= n ->
  (forall p, In p (distinct_prime_factors n) <-> prime p /\ (p | n)) /\
  NoDup (distinct_prime_factors n) /\ StronglySorted Z.le (distinct_prime_factors n).
Proof. exact distinct_prime_factors_correct. Qed.
Print Assumptions C17_distinct_prime_factors.

(* divisors: exactly the positive divisors, strictly ascending (n = 0 excluded:
   every positive integer divides 0) *)
Theorem C17_divisors : forall n, 1 <= n ->
  (forall d, In d (divisors n) <-> 0 < d /\ (d | n)) /\
  StronglySorted Z.lt (divisors n) /\ NoDup (divisors n).
Proof. exact divisors_correct. Qed.
Print Assumptions C17_divisors.

(* gcd: a non-negative common divisor that every common divisor divides *)
Theorem C17_gcd : forall a b,
  0 <= gcd a b /\ (gcd a b | a) /\ (gcd a b | b) /\
  (forall c, (c | a) -> (c | b) -> (c | gcd a b)).
Proof. exact gcd_correct. Qed.
Print Assumptions C17_gcd.

Theorem C17_gcd_greatest : forall a b c, (a <> 0 \/ b <> 0) -> (c | a) -> (c | b) -> c <= gcd a b.
Proof. exact gcd_greatest_le. Qed.
Print Assumptions C17_gcd_greatest.

(* lcm: a non-negative common multiple that divides every common multiple *)
Theorem C17_lcm : forall a b,
  0 <= lcm a b /\ (a | lcm a b) /\ (b | lcm a b) /\
  (forall c, (a | c) -> (b | c) -> (lcm a b | c)).
Proof. exact lcm_correct. Qed.
Print Assumptions C17_lcm.

Theorem C17_gcd_mul_lcm : forall a b, 0 <= a -> 0 <= b -> gcd a b * lcm a b = a * b.
Proof. exact gcd_mul_lcm. Qed.
Print Assumptions C17_gcd_mul_lcm.

(* factorial: 0! = 1, (n+1)! = (n+1) n!, n! = 1 * 2 * ... * n *)
Theorem C17_factorial_0 : factorial 0 = 1.
Proof. exact factorial_0. Qed.
Print Assumptions C17_factorial_0.

Theorem C17_factorial_succ : forall n, 0 <= n -> factorial (n + 1) = (n + 1) * factorial n.
Proof. exact factorial_succ. Qed.
Print Assumptions C17_factorial_succ.

Theorem C17_factorial_product : forall n, factorial n = prod (inclusive_one_range n).
Proof. exact factorial_product. Qed.
Print Assumptions C17_factorial_product.

(* binomial: Pascal's rule with its boundary values, and n! / (k! (n-k)!) *)
Theorem C17_binomial_n_0 : forall n, 0 <= n -> binomial n 0 = 1.
Proof. exact binomial_n_0. Qed.
Print Assumptions C17_binomial_n_0.

Theorem C17_binomial_0_succ : forall k, 0 <= k -> binomial 0 (k + 1) = 0.
Proof. exact binomial_0_succ. Qed.
Print Assumptions C17_binomial_0_succ.

Theorem C17_binomial_pascal : forall n k, 0 <= n -> 0 <= k ->
  binomial (n + 1) (k + 1) = binomial n k + binomial n (k + 1).
Proof. exact binomial_pascal. Qed.
Print Assumptions C17_binomial_pascal.

Theorem C17_binomial_above : forall n k, 0 <= n < k -> binomial n k = 0.
Proof. exact binomial_above. Qed.
Print Assumptions C17_binomial_above.

Theorem C17_binomial_factorial : forall n k, 0 <= k <= n ->
  binomial n k = factorial n / (factorial k * factorial (n - k)).
Proof. exact binomial_factorial. Qed.
Print Assumptions C17_binomial_factorial.

Theorem C17_binomial_factorial_mul : forall n k, 0 <= k <= n ->
  binomial n k * (factorial k * factorial (n - k)) = factorial n.
Proof. exact binomial_factorial_mul. Qed.
Print Assumptions C17_binomial_factorial_mul.

(* the row-sharing evaluator used by the correspondence is the map of binomial *)
Theorem C17_binomial_row : forall n len,
  binomial_row n len = map (fun k => binomial n (Z.of_nat k)) (seq 0 len).
Proof. exact binomial_row_map. Qed.
Print Assumptions C17_binomial_row.

(* totient: the number of 1 <= k <= n coprime to n (n = 0 excluded) *)
Theorem C17_totient : forall n, 1 <= n ->
  NoDup (coprimes n) /\
  (forall k, In k (coprimes n) <-> 1 <= k <= n /\ rel_prime k n) /\
  totient n = Z.of_nat (length (coprimes n)).
Proof. exact totient_correct. Qed.
Print Assumptions C17_totient.

(* next prime: whenever the fuelled search answers, the answer is the least prime
   above n; and it answers whenever a prime lies in (n, 2n+2] (Bertrand's postulate,
   which is not proved here, says one always does for n >= 0) *)
Theorem C17_next_prime : forall n p, next_prime n = Some p ->
  prime p /\ n < p /\ forall q, n < q < p -> ~ prime q.
Proof. exact next_prime_sound. Qed.
Print Assumptions C17_next_prime.

Theorem C17_next_prime_fuel : forall n q, 0 <= n -> prime q -> n < q <= 2 * n + 2 ->
  exists p, next_prime n = Some p.
Proof. exact next_prime_complete. Qed.
Print Assumptions C17_next_prime_fuel.

(* positional notation in any base b >= 2: the digits denote n, lie in 0..b-1, and the
   leading digit is non-zero (0 is the single digit 0) *)
Theorem C17_from_to_digits : forall b n, 2 <= b -> 0 <= n -> from_digits b (to_digits b n) = n.
Proof. exact from_to_digits. Qed.
Print Assumptions C17_from_to_digits.

Theorem C17_to_digits_range : forall b n, 2 <= b -> 0 <= n ->
  Forall (fun d => 0 <= d < b) (to_digits b n).
Proof. exact to_digits_range. Qed.
Print Assumptions C17_to_digits_range.

Theorem C17_to_digits_zero : forall b, 2 <= b -> to_digits b 0 = [0].
Proof. exact to_digits_zero. Qed.
Print Assumptions C17_to_digits_zero.

Theorem C17_to_digits_leading : forall b n, 2 <= b -> 0 < n ->
  exists d l, to_digits b n = d :: l /\ 0 < d.
Proof. exact to_digits_leading. Qed.
Print Assumptions C17_to_digits_leading.

(* inverse pairs *)
Theorem C17_from_to_bin : forall n, 0 <= n -> from_bin (to_bin n) = n.
Proof. exact from_to_bin. Qed.
Print Assumptions C17_from_to_bin.

Theorem C17_to_bin_bits : forall n, 0 <= n -> Forall (fun d => d = 0 \/ d = 1) (to_bin n).
Proof. exact to_bin_bits. Qed.
Print Assumptions C17_to_bin_bits.

Theorem C17_from_to_hex : forall n, 0 <= n -> from_hex (to_hex n) = Some n.
Proof. exact from_to_hex. Qed.
Print Assumptions C17_from_to_hex.

Theorem C17_halve_double : forall n, halve (double n) = (n, 1).
Proof. exact halve_double. Qed.
Print Assumptions C17_halve_double.

Theorem C17_halve_spec : forall n,
  let '(p, q) := halve n in 2 * p = n * q /\ 0 < q /\ Z.gcd p q = 1.
Proof. exact halve_spec. Qed.
Print Assumptions C17_halve_spec.

Theorem C17_double_halve_even : forall n, Z.even n = true ->
  double (fst (halve n)) = n /\ snd (halve n) = 1.
Proof. exact double_halve_even. Qed.
Print Assumptions C17_double_halve_even.

Theorem C17_sqrt_square : forall n, 0 <= n -> sqrt_exact (square n) = Some n.
Proof. exact sqrt_square. Qed.
Print Assumptions C17_sqrt_square.

Theorem C17_sqrt_exact : forall n r, sqrt_exact n = Some r <-> 0 <= r /\ r * r = n.
Proof. exact sqrt_exact_spec. Qed.
Print Assumptions C17_sqrt_exact.

(* decimal digits and the digit sum *)
Theorem C17_digits : forall n, 0 <= n ->
  from_digits 10 (digits n) = n /\ Forall (fun d => 0 <= d <= 9) (digits n).
Proof. exact (fun n H => conj (from_digits_digits n H) (digits_range n H)). Qed.
Print Assumptions C17_digits.

Theorem C17_digit_sum_mod9 : forall n, 0 <= n -> digit_sum n mod 9 = n mod 9.
Proof. exact digit_sum_mod9. Qed.
Print Assumptions C17_digit_sum_mod9.

(* ranges: length and every element *)
Theorem C17_inclusive_one_range : forall n, 0 <= n ->
  length (inclusive_one_range n) = Z.to_nat n /\
  forall i, (i < Z.to_nat n)%nat -> nth i (inclusive_one_range n) 0 = 1 + Z.of_nat i.
Proof. exact inclusive_one_range_spec. Qed.
Print Assumptions C17_inclusive_one_range.

Theorem C17_inclusive_zero_range : forall n, 0 <= n ->
  length (inclusive_zero_range n) = Z.to_nat (n + 1) /\
  forall i, (i < Z.to_nat (n + 1))%nat -> nth i (inclusive_zero_range n) 0 = Z.of_nat i.
Proof. exact inclusive_zero_range_spec. Qed.
Print Assumptions C17_inclusive_zero_range.

Theorem C17_exclusive_one_range : forall n, 0 <= n ->
  length (exclusive_one_range n) = Z.to_nat (n - 1) /\
  forall i, (i < Z.to_nat (n - 1))%nat -> nth i (exclusive_one_range n) 0 = 1 + Z.of_nat i.
Proof. exact exclusive_one_range_spec. Qed.
Print Assumptions C17_exclusive_one_range.

Theorem C17_exclusive_zero_range : forall n, 0 <= n ->
  length (exclusive_zero_range n) = Z.to_nat n /\
  forall i, (i < Z.to_nat n)%nat -> nth i (exclusive_zero_range n) 0 = Z.of_nat i.
Proof. exact exclusive_zero_range_spec. Qed.
Print Assumptions C17_exclusive_zero_range.

Theorem C17_range_membership : forall n x, 0 <= n ->
  (In x (inclusive_one_range n) <-> 1 <= x <= n) /\
  (In x (inclusive_zero_range n) <-> 0 <= x <= n) /\
  (In x (exclusive_one_range n) <-> 1 <= x < n) /\
  (In x (exclusive_zero_range n) <-> 0 <= x < n).
Proof. exact range_membership. Qed.
Print Assumptions C17_range_membership.
