(* Property C04 — omitting trailing closers never changes the parse.
   Only statements, each closed by `exact`, each followed by Print Assumptions. *)
From Coq Require Import List NArith ZArith Bool.
From Vy Require Import Model.Base Model.Lexer Model.Parser Gen.ParserConsts
  Proofs.ParserFacts Proofs.C04Proofs Proofs.C04Lex.
Import ListNotations.
Open Scope N_scope.

(* Token level.  If a program followed by ANY sequence of closer tokens parses, the
   program without them parses to the same tree (`same`: identical up to closer
   characters inside raw function-call names) -- unbounded length and nesting. *)
Theorem C04_tokens : forall ts cs l1,
  forallb closer_tok cs = true -> parse_tokens (ts ++ cs) = Ok l1 ->
  exists l2, parse_tokens ts = Ok l2 /\ same l1 l2.
Proof. exact parse_tokens_drop_closers. Qed.
Print Assumptions C04_tokens.

(* ... and literally the same tree when no function-call name contains a closer *)
Theorem C04_tokens_exact : forall ts cs l1 l2,
  forallb closer_tok cs = true ->
  parse_tokens (ts ++ cs) = Ok l1 -> parse_tokens ts = Ok l2 ->
  forallb names_plain l1 = true -> forallb names_plain l2 = true -> l1 = l2.
Proof. exact parse_tokens_drop_closers_exact. Qed.
Print Assumptions C04_tokens_exact.

(* Lexer: an unterminated string / compressed literal ends at the end of input *)
Theorem C04_lex_string : forall s d acc,
  mode_after s = MString d acc -> tokenise (s ++ [d]) = tokenise s.
Proof. exact tokenise_close_string. Qed.
Print Assumptions C04_lex_string.

(* Source level: closing brackets / semicolons after code ... *)
Theorem C04_source : forall s cs l1,
  flushing (mode_after s) = true -> forallb (fun c => mem c closers) cs = true ->
  parse_source (s ++ cs) = Ok l1 -> exists l2, parse_source s = Ok l2 /\ same l1 l2.
Proof. exact source_drop_closers. Qed.
Print Assumptions C04_source.

(* ... and after a closing string delimiter that is itself left off *)
Theorem C04_source_string : forall s d acc cs l1,
  mode_after s = MString d acc -> forallb (fun c => mem c closers) cs = true ->
  parse_source (s ++ [d] ++ cs) = Ok l1 -> exists l2, parse_source s = Ok l2 /\ same l1 l2.
Proof. exact source_drop_string_delimiter_and_closers. Qed.
Print Assumptions C04_source_string.

(* the premises are satisfiable: (1|λ2|`a   closed by  `;)   *)
Example C04_nonvacuous :
  let s := [40; 49; 124; 955; 50; 124; 96; 97] in
  mode_after s = MString 96 [97]
  /\ forallb (fun c => mem c closers) [59; 41] = true
  /\ exists l, parse_source (s ++ [96] ++ [59; 41]) = Ok l /\ forallb names_plain l = true /\ l <> [].
Proof.
  split; [vm_compute; reflexivity|]. split; [vm_compute; reflexivity|].
  eexists. split; [vm_compute; reflexivity|]. split; [vm_compute; reflexivity|discriminate].
Qed.
Print Assumptions C04_nonvacuous.
