(* Property C07 — rational arithmetic is exact and stays inside the number types.
   Only statements, each closed by `exact`, each followed by Print Assumptions. *)
From Coq Require Import ZArith QArith Qround Qreduction Bool List.
From Vy Require Import Model.Arith Proofs.ArithProofs.
Import ListNotations.
Open Scope Q_scope.

(* ---- each overload returns exactly the mathematical result ------------------- *)
Theorem C07_add_exact : forall a b, vadd a b == a + b.
Proof. exact vadd_exact. Qed.
Print Assumptions C07_add_exact.

Theorem C07_sub_exact : forall a b, vsub a b == a - b.
Proof. exact vsub_exact. Qed.
Print Assumptions C07_sub_exact.

Theorem C07_mul_exact : forall a b, vmul a b == a * b.
Proof. exact vmul_exact. Qed.
Print Assumptions C07_mul_exact.

Theorem C07_div_exact : forall a b, ~ b == 0 -> vdiv a b == a / b.
Proof. exact vdiv_exact. Qed.
Print Assumptions C07_div_exact.

(* floor division is THE integer n with n <= a/b < n+1 *)
Theorem C07_floordiv_exact : forall a b, ~ b == 0 ->
  exists n : Z, vfloordiv a b = inject_Z n /\ inject_Z n <= a / b /\ a / b < inject_Z (n + 1).
Proof. exact vfloordiv_spec. Qed.
Print Assumptions C07_floordiv_exact.

Theorem C07_floordiv_unique : forall a b n, ~ b == 0 ->
  inject_Z n <= a / b -> a / b < inject_Z (n + 1) -> vfloordiv a b = inject_Z n.
Proof. exact vfloordiv_unique. Qed.
Print Assumptions C07_floordiv_unique.

Theorem C07_floordiv_is_int : forall a b, is_int (vfloordiv a b) = true.
Proof. exact vfloordiv_is_int. Qed.
Print Assumptions C07_floordiv_is_int.

Theorem C07_mod_exact : forall a b, vmod a b == a - b * inject_Z (Qfloor (a / b)).
Proof. exact vmod_exact. Qed.
Print Assumptions C07_mod_exact.

(* division and floor division by zero return 0 (the Python int 0) *)
Theorem C07_div_zero : forall a b, b == 0 -> vdiv a b = 0.
Proof. exact vdiv_zero. Qed.
Print Assumptions C07_div_zero.

Theorem C07_floordiv_zero : forall a b, b == 0 -> vfloordiv a b = 0.
Proof. exact vfloordiv_zero. Qed.
Print Assumptions C07_floordiv_zero.

(* ---- Euclidean division with Python's sign conventions ------------------------ *)
Theorem C07_euclid : forall a b, ~ b == 0 -> a == vfloordiv a b * b + vmod a b.
Proof. exact euclid. Qed.
Print Assumptions C07_euclid.

Theorem C07_mod_range_pos : forall a b, 0 < b -> 0 <= vmod a b /\ vmod a b < b.
Proof. exact mod_range_pos. Qed.
Print Assumptions C07_mod_range_pos.

Theorem C07_mod_range_neg : forall a b, b < 0 -> b < vmod a b /\ vmod a b <= 0.
Proof. exact mod_range_neg. Qed.
Print Assumptions C07_mod_range_neg.

(* on Python ints, // and % are Z.div and Z.modulo *)
Theorem C07_floordiv_int : forall x y, y <> 0%Z ->
  vfloordiv (inject_Z x) (inject_Z y) = inject_Z (x / y).
Proof. exact vfloordiv_int. Qed.
Print Assumptions C07_floordiv_int.

Theorem C07_mod_int : forall x y, y <> 0%Z ->
  vmod (inject_Z x) (inject_Z y) == inject_Z (x mod y).
Proof. exact vmod_int. Qed.
Print Assumptions C07_mod_int.

(* ---- the number types: integer <-> denominator 1; the canonical observation ---- *)
Theorem C07_is_int_iff : forall a, is_int a = true <-> exists z : Z, a == inject_Z z.
Proof. exact is_int_iff. Qed.
Print Assumptions C07_is_int_iff.

Theorem C07_int_closed : forall a b, is_int a = true -> is_int b = true ->
  is_int (vadd a b) = true /\ is_int (vsub a b) = true /\ is_int (vmul a b) = true.
Proof. exact (fun a b Ha Hb => conj (vadd_int a b Ha Hb) (conj (vsub_int a b Ha Hb) (vmul_int a b Ha Hb))). Qed.
Print Assumptions C07_int_closed.

(* equal observations (int n / rat p q) <-> equal rationals: no approximation *)
Theorem C07_canon_eq_iff : forall a b, canon a = canon b <-> a == b.
Proof. exact canon_eq_iff. Qed.
Print Assumptions C07_canon_eq_iff.

Theorem C07_results_reduced : forall a b,
  Qred (vadd a b) = vadd a b /\ Qred (vsub a b) = vsub a b /\ Qred (vmul a b) = vmul a b
  /\ Qred (vdiv a b) = vdiv a b /\ Qred (vfloordiv a b) = vfloordiv a b /\ Qred (vmod a b) = vmod a b.
Proof. exact results_reduced. Qed.
Print Assumptions C07_results_reduced.

(* every number/number call of the modelled implementation yields an int or a rational *)
Theorem C07_stays_number : forall o a b, (o = OMod -> ~ b == 0) -> is_number (run_op o a b).
Proof. exact run_op_number. Qed.
Print Assumptions C07_stays_number.

(* ---- field identities of chained arithmetic, with equality --------------------- *)
Theorem C07_vdiv_mul : forall a b, ~ b == 0 -> vmul (vdiv a b) b == a.
Proof. exact vdiv_mul. Qed.
Print Assumptions C07_vdiv_mul.

Theorem C07_vdiv_mul_canon : forall a b, ~ b == 0 -> canon (vmul (vdiv a b) b) = canon a.
Proof. exact vdiv_mul_canon. Qed.
Print Assumptions C07_vdiv_mul_canon.

Theorem C07_vmul_div : forall a b, ~ b == 0 -> vdiv (vmul a b) b == a.
Proof. exact vmul_div. Qed.
Print Assumptions C07_vmul_div.

Theorem C07_vadd_sub : forall a b, vsub (vadd a b) b == a.
Proof. exact vadd_sub. Qed.
Print Assumptions C07_vadd_sub.

Theorem C07_vsub_add : forall a b, vadd (vsub a b) b == a.
Proof. exact vsub_add. Qed.
Print Assumptions C07_vsub_add.

Theorem C07_vsub_self : forall a, vsub a a == 0.
Proof. exact vsub_self. Qed.
Print Assumptions C07_vsub_self.

Theorem C07_vdiv_self : forall a, ~ a == 0 -> vdiv a a == 1.
Proof. exact vdiv_self. Qed.
Print Assumptions C07_vdiv_self.

Theorem C07_comm : forall a b, vadd a b == vadd b a /\ vmul a b == vmul b a.
Proof. exact (fun a b => conj (vadd_comm a b) (vmul_comm a b)). Qed.
Print Assumptions C07_comm.

Theorem C07_assoc : forall a b c,
  vadd (vadd a b) c == vadd a (vadd b c) /\ vmul (vmul a b) c == vmul a (vmul b c).
Proof. exact (fun a b c => conj (vadd_assoc a b c) (vmul_assoc a b c)). Qed.
Print Assumptions C07_assoc.

Theorem C07_distr : forall a b c, vmul a (vadd b c) == vadd (vmul a b) (vmul a c).
Proof. exact vmul_add_distr. Qed.
Print Assumptions C07_distr.

Theorem C07_div_distr : forall a b c, ~ c == 0 -> vdiv (vadd a b) c == vadd (vdiv a c) (vdiv b c).
Proof. exact vdiv_add_distr. Qed.
Print Assumptions C07_div_distr.

Theorem C07_div_div : forall a b c, ~ b == 0 -> ~ c == 0 -> vdiv (vdiv a b) c == vdiv a (vmul b c).
Proof. exact vdiv_div. Qed.
Print Assumptions C07_div_div.

(* ---- expression trees over + - * /, any depth ----------------------------------- *)
Theorem C07_tree : forall e, divisors_nonzero e -> eval_model e == eval_Q e.
Proof. exact tree_exact. Qed.
Print Assumptions C07_tree.

Theorem C07_tree_canon : forall e, divisors_nonzero e -> canon (eval_model e) = canon (eval_Q e).
Proof. exact tree_canon. Qed.
Print Assumptions C07_tree_canon.

(* Coq's Q has x / 0 = 0 like Vyxal, so the statement even holds without the hypothesis *)
Theorem C07_tree_total : forall e, eval_model e == eval_Q e.
Proof. exact tree_total. Qed.
Print Assumptions C07_tree_total.

(* ---- all six observable results of the modelled calls, away from zero divisors ----- *)
Theorem C07_run_op_exact : forall o a b, ~ b == 0 ->
  run_op o a b =
  canon (match o with
         | OAdd => a + b | OSub => a - b | OMul => a * b | ODiv => a / b
         | OMod => a - b * inject_Z (Qfloor (a / b))
         | OFloordiv => inject_Z (Qfloor (a / b))
         end).
Proof. exact run_op_exact. Qed.
Print Assumptions C07_run_op_exact.

(* ---- non-vacuity ------------------------------------------------------------------- *)
Example C07_ex_ops :
  vadd (-7 # 2) (2 # 3) = (-17 # 6) /\ vsub (-7 # 2) (2 # 3) = (-25 # 6)
  /\ vmul (-7 # 2) (2 # 3) = (-7 # 3) /\ vdiv (-7 # 2) (2 # 3) = (-21 # 4)
  /\ vfloordiv (-7 # 2) (2 # 3) = (-6 # 1) /\ vmod (-7 # 2) (2 # 3) = (1 # 2)
  /\ vmod (7 # 1) (-2 # 3) = (-1 # 3) /\ vfloordiv (7 # 1) (-2 # 3) = (-11 # 1).
Proof. exact ex_ops. Qed.
Print Assumptions C07_ex_ops.

Example C07_ex_vdiv_mul : ~ (-2 # 5) == 0 /\ vmul (vdiv (7 # 3) (-2 # 5)) (-2 # 5) = (7 # 3)
  /\ canon (vdiv (6 # 1) (3 # 2)) = CInt 4 /\ canon (vdiv (1 # 1) (3 # 1)) = CRat 1 3.
Proof. exact ex_vdiv_mul. Qed.
Print Assumptions C07_ex_vdiv_mul.

Example C07_ex_by_zero : (0 # 7) == 0 /\ vdiv (5 # 2) (0 # 7) = 0 /\ vfloordiv (5 # 2) (0 # 7) = 0
  /\ vmod_impl (5 # 2) (0 # 7) = CZeroDiv.
Proof. exact ex_by_zero. Qed.
Print Assumptions C07_ex_by_zero.

Example C07_ex_mod_pos : 0 < (2 # 3) /\ vmod (-7 # 2) (2 # 3) = (1 # 2).
Proof. exact ex_mod_pos. Qed.
Print Assumptions C07_ex_mod_pos.

Example C07_ex_mod_neg : (-2 # 3) < 0 /\ vmod (7 # 1) (-2 # 3) = (-1 # 3).
Proof. exact ex_mod_neg. Qed.
Print Assumptions C07_ex_mod_neg.

Example C07_ex_int : (-3 <> 0)%Z /\ vfloordiv (inject_Z 7) (inject_Z (-3)) = inject_Z (-3)
  /\ vmod (inject_Z 7) (inject_Z (-3)) = inject_Z (-2).
Proof. exact ex_int. Qed.
Print Assumptions C07_ex_int.

Example C07_ex_tree : divisors_nonzero ex_tree /\ eval_model ex_tree = (43 # 28).
Proof. exact ex_tree_value. Qed.
Print Assumptions C07_ex_tree.
