(* Property C13 — a finite lazy list is indistinguishable from the list it enumerates.
   Only statements, each closed by `exact`, each followed by Print Assumptions.
   Model: Model/LazyList.v (heap of cells: the list built over the source and its deep
   copies, which are lazy views of their original).  `abs h c` is the list cell c denotes,
   `spec k l` is observation k on the plain Python list l, `mask` hides the value of next(L)
   (a move of the cache, not an observation of the list; its value is C13_next_value),
   `op_ok` excludes only a slice step of 0 (see C13_step_zero_outside). *)
From Coq Require Import List ZArith Bool.
From Vy Require Import Model.LazyList Proofs.LazyListProofs.
Import ListNotations.
Open Scope Z_scope.

(* one observation, any well-formed heap: the result is the plain list's result, the heap
   stays well-formed, every existing cell denotes what it denoted, a new cell (deep_copy)
   denotes what the copied cell denotes *)
Theorem C13_step : forall h o, wf h -> h <> [] -> op_ok o = true ->
  let c := resolve h (target o) in
  mask (what o) (fst (step h o)) = spec (what o) (abs h c) /\
  (wf (snd (step h o)) /\ (length h <= length (snd (step h o)))%nat /\
   (forall c', (c' < length h)%nat -> abs (snd (step h o)) c' = abs h c') /\
   (forall c', (length h <= c' < length (snd (step h o)))%nat -> abs (snd (step h o)) c' = abs h c)).
Proof. exact step_ok. Qed.
Print Assumptions C13_step.

(* every history on every source: the outputs are the plain list's outputs *)
Theorem C13 : forall src ops, Forall (fun o => op_ok o = true) ops ->
  masked ops (fst (run (init src) ops)) = map (fun o => spec (what o) src) ops.
Proof. exact all_histories. Qed.
Print Assumptions C13.

(* observations never change the sequence a lazy list (or any of its copies) denotes *)
Theorem C13_denotation_kept : forall src ops, Forall (fun o => op_ok o = true) ops ->
  forall c, (c < length (snd (run (init src) ops)))%nat -> abs (snd (run (init src) ops)) c = src.
Proof. exact denotation_kept. Qed.
Print Assumptions C13_denotation_kept.

(* next(L) returns the first item of the denoted list that is not yet in the cache *)
Theorem C13_next_value : forall h o, wf h -> h <> [] -> what o = KNext ->
  let c := resolve h (target o) in
  fst (step h o) = match nth_error (abs h c) (length (gen_of c h)) with Some v => OZ v | None => OStop end.
Proof. exact next_value. Qed.
Print Assumptions C13_next_value.

(* non-vacuity: an admissible history with copies of copies, wrap-around, positions counted
   from the end, next, reversal; model outputs and plain-list outputs computed *)
Example C13_example :
  Forall (fun o => op_ok o = true) ex_ops /\
  fst (run (init ex_src) ex_ops) =
    [OZ 0; OUnit; OZ 1; OL [0; 1]; OUnit; OZ 0; OL [2; 1]; OL [1; 0; 2]; OB true; OZ 3; OIndexError] /\
  map (fun o => spec (what o) ex_src) ex_ops =
    [OZ 0; OUnit; OUnit; OL [0; 1]; OUnit; OZ 0; OL [2; 1]; OL [1; 0; 2]; OB true; OZ 3; OIndexError].
Proof. exact example_history. Qed.
Print Assumptions C13_example.

(* the excluded observation: L[::0] is L[::1] on a LazyList, ValueError on a list *)
Example C13_step_zero_outside :
  fst (step (init [5]) {| target := 0; what := KSlice None None (Some 0) |}) = OL [5] /\
  spec (KSlice None None (Some 0)) [5] = OValueError.
Proof. exact step_zero_differs. Qed.
Print Assumptions C13_step_zero_outside.
