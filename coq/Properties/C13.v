From Vy Require Import Model.LazyList Proofs.LazyListProofs.
Theorem C13_tmp : True. Proof. exact tmp. Qed.
Print Assumptions C13_tmp.
