(* Property C14 — finite prefixes of infinite lists are computed lazily and terminate.
   Only statements, each closed by `exact`, each followed by Print Assumptions.
   [exact m src n outs k]: asked for n items on source src, machine m yields exactly
   outs after exactly k pulls, for every fuel >= k.  [lin_bounded m a b]: a*n+b pulled
   items suffice for n outputs whatever the items are. *)
From Coq Require Import List ZArith Bool Arith.
From Vy Require Import Model.Demand Proofs.DemandProofs.
Import ListNotations.

(* nothing asked, nothing pulled *)
Theorem C14_zero : forall I O (m : machine I O) src, warm m (init m) = true -> exact m src 0 [] 0.
Proof. exact (@run_zero). Qed.
Print Assumptions C14_zero.

(* ---- one pull per item: n ------------------------------------------------------ *)
Theorem C14_map : forall I O (f : I -> O) src n, exact (m_map f) src n (prefix (fun i => f (src i)) n) n.
Proof. exact (fun I O f => imap_exact (fun _ x => f x)). Qed.
Print Assumptions C14_map.

Theorem C14_zip : forall I J (other : nat -> J) (src : nat -> I) n,
  exact (m_zip other) src n (prefix (fun i => (src i, other i)) n) n.
Proof. exact (fun I J other => imap_exact (fun i x => (x, other i))). Qed.
Print Assumptions C14_zip.

(* a finite operand paired with the source (zero fill after it ends): still one pull per item *)
Theorem C14_zip_finite_left : forall I J (pad : J) (fin : list J) (src : nat -> I) n,
  exact (m_zip_fin_l pad fin) src n (prefix (fun i => (nth i fin pad, src i)) n) n.
Proof. exact (fun I J pad fin => imap_exact (fun i (x : I) => (nth i fin pad, x))). Qed.
Print Assumptions C14_zip_finite_left.

Theorem C14_zip_finite_right : forall I J (pad : J) (fin : list J) (src : nat -> I) n,
  exact (m_zip_fin_r pad fin) src n (prefix (fun i => (src i, nth i fin pad)) n) n.
Proof. exact (fun I J pad fin => imap_exact (fun i (x : I) => (x, nth i fin pad))). Qed.
Print Assumptions C14_zip_finite_right.

Theorem C14_vectorised_finite : forall (op : Z -> Z -> Z) (fin : list Z) (src : nat -> Z) n,
  exact (m_vec_fin op fin) src n (prefix (fun i => op (nth i fin 0%Z) (src i)) n) n.
Proof. exact (fun op fin => imap_exact (fun i x => op (nth i fin 0%Z) x)). Qed.
Print Assumptions C14_vectorised_finite.

Theorem C14_vectorised_add : forall (other src : nat -> Z) n,
  exact (m_vec_add other) src n (prefix (fun i => (src i + other i)%Z) n) n.
Proof. exact (fun other => imap_exact (fun i x => (x + other i)%Z)). Qed.
Print Assumptions C14_vectorised_add.

Theorem C14_enumerate : forall I (src : nat -> I) n, exact m_enumerate src n (prefix (fun i => (i, src i)) n) n.
Proof. exact (fun I => imap_exact (fun i (x : I) => (i, x))). Qed.
Print Assumptions C14_enumerate.

Theorem C14_append : forall I (src : nat -> I) n, exact m_append src n (prefix src n) n.
Proof. exact (fun I => imap_exact (fun _ (x : I) => x)). Qed.
Print Assumptions C14_append.

Theorem C14_prefixes : forall I (src : nat -> I) n,
  exact m_prefixes src n (prefix (fun i => prefix src (S i)) n) n.
Proof. exact (@prefixes_exact). Qed.
Print Assumptions C14_prefixes.

(* ---- one item of look-ahead: n+1 ------------------------------------------------- *)
Theorem C14_scanl : forall A (f : A -> A -> A) src n,
  exact (m_scanl f) src (S n) (prefix (partial f src) (S n)) (S (S n)).
Proof. exact (@scanl_exact). Qed.
Print Assumptions C14_scanl.

Theorem C14_cumulative_sums : forall (src : nat -> Z) n,
  exact m_cumsum src (S n) (prefix (fun i => fold_right Z.add 0%Z (prefix src (S i))) (S n)) (S (S n)).
Proof. exact cumsum_exact. Qed.
Print Assumptions C14_cumulative_sums.

Theorem C14_deltas : forall (src : nat -> Z) n,
  exact m_deltas src (S n) (prefix (fun i => (src (S i) - src i)%Z) (S n)) (S (S n)).
Proof. exact (pairwise_exact (fun a x => (x - a)%Z)). Qed.
Print Assumptions C14_deltas.

Theorem C14_head_remove : forall I (src : nat -> I) n,
  exact m_head_remove src n (prefix (fun j => src (S j)) n) (S n).
Proof. exact (@head_remove_exact). Qed.
Print Assumptions C14_head_remove.

(* ---- windows of k: n+k-1; chunks of k: k*n ----------------------------------------- *)
Theorem C14_windows : forall I k' (src : nat -> I) n,
  exact (m_windows (S k')) src (S n) (prefix (window src (S k')) (S n)) (S k' + n).
Proof. exact (@windows_exact). Qed.
Print Assumptions C14_windows.

Theorem C14_chunks : forall I k' (src : nat -> I) n,
  exact (m_chunks (S k')) src (S n) (prefix (chunk src (S k')) (S n)) (S n * S k').
Proof. exact (@chunks_exact). Qed.
Print Assumptions C14_chunks.

(* ---- prepend: n-1; a finite list in front: n - its length ---------------------------- *)
Theorem C14_prepend : forall I (v : I) src n, exact (m_prepend v) src (S n) (v :: prefix src n) n.
Proof. exact (@prepend_exact). Qed.
Print Assumptions C14_prepend.

Theorem C14_prepend_list : forall I (vs : list I) src n,
  exact (m_prepend_list vs) src n (firstn n (vs ++ prefix src (n - length vs))) (n - length vs).
Proof. exact (@prepend_list_exact). Qed.
Print Assumptions C14_prepend_list.

(* ---- slice from offset o: n+o; every s-th item from a: a + s*(n-1) + 1 ---------------- *)
Theorem C14_slice_from : forall I o (src : nat -> I) n,
  exact (m_slice o) src (S n) (prefix (fun j => src (o + j)) (S n)) (S n + o).
Proof. exact (@slice_exact). Qed.
Print Assumptions C14_slice_from.

Theorem C14_every_nth : forall I a s (src : nat -> I) n, s <> 0 ->
  exact (m_stride a s) src (S n) (prefix (fun j => src (a + s * j)) (S n)) (S (a + s * n)).
Proof. exact (@stride_exact). Qed.
Print Assumptions C14_every_nth.

(* ---- insert / remove at a position ----------------------------------------------------- *)
Theorem C14_insert_at : forall I p (v : I) src n,
  exact (m_insert_at p v) src n (prefix (inserted p v src) n) (if n <=? S p then n else n - 1).
Proof. exact (@insert_at_exact). Qed.
Print Assumptions C14_insert_at.

Theorem C14_remove_at : forall I p (src : nat -> I) n,
  exact (m_remove_at p) src (S n) (prefix (fun j => src (skip_at p j)) (S n)) (S (skip_at p n)).
Proof. exact (@remove_at_exact). Qed.
Print Assumptions C14_remove_at.

(* ---- interleave with an infinite list: ceil(n/2) on the left, floor(n/2) on the right ---- *)
Theorem C14_interleave : forall I (other src : nat -> I) n,
  exact (m_interleave other) src n (prefix (interleaved src other) n) ((n + 1) / 2).
Proof. exact (@interleave_exact). Qed.
Print Assumptions C14_interleave.

Theorem C14_interleave_right : forall I (other src : nat -> I) n,
  exact (m_interleave_r other) src n (prefix (interleaved other src) n) (n / 2).
Proof. exact (@interleave_r_exact). Qed.
Print Assumptions C14_interleave_right.

(* ---- filter, uniquify, truthy indices: position of the (n+1)-th admissible item, plus one -- *)
Theorem C14_filter : forall I (p : I -> bool) src n pos,
  p (src pos) = true -> length (filter p (prefix src pos)) = n ->
  exact (m_filter p) src (S n) (filter p (prefix src (S pos))) (S pos).
Proof. exact (@filter_exact). Qed.
Print Assumptions C14_filter.

Theorem C14_filter_dense : forall I (p : I -> bool) src d n fuel,
  (forall i, exists j, j < d /\ p (src (i + j)) = true) -> d * n <= fuel ->
  exists k, k <= d * n /\
    run_until (m_filter p) src n fuel = Done (firstn n (filter p (prefix src (d * n)))) k.
Proof. exact (@filter_dense). Qed.
Print Assumptions C14_filter_dense.

Theorem C14_uniquify : forall I (eqb : I -> I -> bool) src n pos,
  existsb (eqb (src pos)) (uniq eqb (prefix src pos)) = false ->
  length (uniq eqb (prefix src pos)) = n ->
  exact (m_uniquify eqb) src (S n) (uniq eqb (prefix src (S pos))) (S pos).
Proof. exact (@uniquify_exact). Qed.
Print Assumptions C14_uniquify.

Theorem C14_uniquify_distinct : forall I (eqb : I -> I -> bool) src n,
  (forall i j, i < j -> eqb (src j) (src i) = false) ->
  exact (m_uniquify eqb) src n (prefix src n) n.
Proof. exact (@uniquify_distinct_exact). Qed.
Print Assumptions C14_uniquify_distinct.

Theorem C14_truthy_indices : forall (src : nat -> Z) n pos,
  src pos <> 0%Z -> length (filter (fun i => negb (Z.eqb (src i) 0)) (seq 0 pos)) = n ->
  exact m_truthy src (S n) (filter (fun i => negb (Z.eqb (src i) 0)) (seq 0 (S pos))) (S pos).
Proof. exact truthy_indices_exact. Qed.
Print Assumptions C14_truthy_indices.

(* ---- flatten: no empty row, at most n rows ------------------------------------------------ *)
Theorem C14_flatten : forall A (src : nat -> list A) n fuel,
  (forall i, src i <> []) -> n <= fuel ->
  exists k, k <= n /\ run_until m_flatten src n fuel = Done (firstn n (concat (prefix src n))) k.
Proof. exact (@flatten_bound). Qed.
Print Assumptions C14_flatten.

(* flatten by any depth k'+1 (also deeper than the nesting): no item flattens to nothing, at most n pulls *)
Theorem C14_flatten_by : forall k' (src : nat -> val) n fuel,
  (forall i, vflat_item k' (src i) <> []) -> n <= fuel ->
  exists k, k <= n /\
    run_until (stage_machine (SFlattenBy (S k'))) src n fuel
    = Done (firstn n (multis (fun _ x => vflat_item k' x) src n)) k.
Proof. exact (fun k' => multi_bound (fun _ x => vflat_item k' x)). Qed.
Print Assumptions C14_flatten_by.

(* group consecutive: proved only for sources whose neighbours differ (every group a singleton);
   missing: the general statement relative to the positions where the runs end *)
Theorem C14_group_consecutive_partial : forall I (eqb : I -> I -> bool) src n,
  (forall i, eqb (src i) (src (S i)) = false) ->
  exact (m_group eqb) src n (prefix (fun i => [src i]) n) (S n).
Proof. exact (@group_exact). Qed.
Print Assumptions C14_group_consecutive_partial.

(* ---- linear bounds valid for every input ---------------------------------------------------- *)
Theorem C14_map_lin : forall I O (f : I -> O), I -> lin_bounded (m_map f) 1 0.
Proof. exact (fun I O f d => imap_bounded (fun _ x => f x) d). Qed.
Print Assumptions C14_map_lin.

Theorem C14_zip_lin : forall I J (other : nat -> J), I -> lin_bounded (@m_zip I J other) 1 0.
Proof. exact (fun I J other d => imap_bounded (fun i x => (x, other i)) d). Qed.
Print Assumptions C14_zip_lin.

Theorem C14_enumerate_lin : forall I, I -> lin_bounded (@m_enumerate I) 1 0.
Proof. exact (fun I d => imap_bounded (fun i (x : I) => (i, x)) d). Qed.
Print Assumptions C14_enumerate_lin.

Theorem C14_prefixes_lin : forall I, lin_bounded (@m_prefixes I) 1 0.
Proof. exact (@prefixes_bounded). Qed.
Print Assumptions C14_prefixes_lin.

Theorem C14_cumulative_sums_lin : lin_bounded m_cumsum 1 1.
Proof. exact (scanl_bounded Z.add 0%Z). Qed.
Print Assumptions C14_cumulative_sums_lin.

Theorem C14_deltas_lin : lin_bounded m_deltas 1 1.
Proof. exact (pairwise_bounded (fun a x => (x - a)%Z) 0%Z). Qed.
Print Assumptions C14_deltas_lin.

Theorem C14_windows_lin : forall I k', I -> lin_bounded (@m_windows I (S k')) 1 k'.
Proof. exact (@windows_bounded). Qed.
Print Assumptions C14_windows_lin.

Theorem C14_chunks_lin : forall I k', I -> lin_bounded (@m_chunks I (S k')) (S k') 0.
Proof. exact (@chunks_bounded). Qed.
Print Assumptions C14_chunks_lin.

Theorem C14_prepend_lin : forall I (vs : list I), lin_bounded (m_prepend_list vs) 1 0.
Proof. exact (@prepend_list_bounded). Qed.
Print Assumptions C14_prepend_lin.

Theorem C14_slice_from_lin : forall I, I -> forall o, lin_bounded (@m_slice I o) 1 o.
Proof. exact (@slice_bounded). Qed.
Print Assumptions C14_slice_from_lin.

Theorem C14_every_nth_lin : forall I, I -> forall a s, s <> 0 -> lin_bounded (@m_stride I a s) s a.
Proof. exact (@stride_bounded). Qed.
Print Assumptions C14_every_nth_lin.

Theorem C14_interleave_lin : forall I (other : nat -> I), lin_bounded (m_interleave other) 1 0.
Proof. exact (@interleave_bounded). Qed.
Print Assumptions C14_interleave_lin.

Theorem C14_interleave_finite_lin : forall I (fin : list I), lin_bounded (m_interleave_fin fin) 1 0.
Proof. exact (@interleave_fin_bounded). Qed.
Print Assumptions C14_interleave_finite_lin.

Theorem C14_interleave_finite_right_lin : forall I (fin : list I), lin_bounded (m_interleave_fin_r fin) 1 0.
Proof. exact (@interleave_fin_r_bounded). Qed.
Print Assumptions C14_interleave_finite_right_lin.

Theorem C14_insert_at_lin : forall I p (v : I), lin_bounded (m_insert_at p v) 1 0.
Proof. exact (@insert_at_bounded). Qed.
Print Assumptions C14_insert_at_lin.

Theorem C14_remove_at_lin : forall I, I -> forall p, lin_bounded (@m_remove_at I p) 1 1.
Proof. exact (@remove_at_bounded). Qed.
Print Assumptions C14_remove_at_lin.

Theorem C14_head_remove_lin : forall I, I -> lin_bounded (@m_head_remove I) 1 1.
Proof. exact (@head_remove_bounded). Qed.
Print Assumptions C14_head_remove_lin.

(* a bound valid for every input bounds the pulls of every run, and the run terminates *)
Theorem C14_bound_run : forall I O (m : machine I O) f, bounded m f -> forall src n fuel, f n <= fuel ->
  exists k, k <= f n /\ run_until m src n fuel = Done (firstn n (snd (trace m src (f n)))) k.
Proof. exact (@run_bounded). Qed.
Print Assumptions C14_bound_run.

(* ---- composition ------------------------------------------------------------------------------ *)
Theorem C14_comp : forall I M O (m1 : machine I M) (m2 : machine M O) f1 f2,
  bounded m1 f1 -> bounded m2 f2 -> bounded (comp m1 m2) (fun n => f1 (f2 n)).
Proof. exact (@comp_bounded). Qed.
Print Assumptions C14_comp.

Theorem C14_comp_linear : forall I M O (m1 : machine I M) (m2 : machine M O) a1 b1 a2 b2,
  lin_bounded m1 a1 b1 -> lin_bounded m2 a2 b2 -> lin_bounded (comp m1 m2) (a1 * a2) (a1 * b2 + b1).
Proof. exact (@comp_lin_bounded). Qed.
Print Assumptions C14_comp_linear.

Theorem C14_comp_run : forall I M O (m1 : machine I M) (m2 : machine M O) f1 f2,
  bounded m1 f1 -> bounded m2 f2 -> forall src n fuel, f1 (f2 n) <= fuel ->
  exists k, k <= f1 (f2 n) /\
    run_until (comp m1 m2) src n fuel = Done (firstn n (snd (trace (comp m1 m2) src (f1 (f2 n))))) k.
Proof. exact (@comp_run_bound). Qed.
Print Assumptions C14_comp_run.

(* the composed machine yields what the second makes of the first one's items (also for
   filter-like stages: the bound is relative to the source) *)
Theorem C14_comp_relative : forall I M O (m1 : machine I M) (m2 : machine M O) src n b fuel,
  warm m1 (fst (trace m1 src b)) = true ->
  n <= length (snd (feed m2 (snd (trace m1 src b)))) ->
  warm m2 (fst (feed m2 (snd (trace m1 src b)))) = true ->
  b <= fuel ->
  exists k, k <= b /\
    run_until (comp m1 m2) src n fuel = Done (firstn n (snd (feed m2 (snd (trace m1 src b))))) k.
Proof. exact (@comp_relative). Qed.
Print Assumptions C14_comp_relative.

(* any number of stages *)
Theorem C14_chain_linear : forall V (rest : list (machine V V)) m,
  linear m -> Forall linear rest -> linear (chain m rest).
Proof. exact (@chain_linear). Qed.
Print Assumptions C14_chain_linear.

(* the catalogue of the correspondence: every stage whose demand does not depend on the items
   is linear, and so is every pipeline of such stages *)
Theorem C14_stage_linear : forall s, regular s = true -> linear (stage_machine s).
Proof. exact stage_linear. Qed.
Print Assumptions C14_stage_linear.

Theorem C14_pipeline_linear : forall s rest,
  regular s = true -> forallb regular rest = true -> linear (pipeline s rest).
Proof. exact pipeline_linear. Qed.
Print Assumptions C14_pipeline_linear.

Theorem C14_linear_terminates : forall V (m : machine V V) a b, lin_bounded m a b ->
  forall src n fuel, a * n + b <= fuel ->
  exists k outs, k <= a * n + b /\ run_until m src n fuel = Done outs k /\ length outs = n.
Proof. exact (@linear_run). Qed.
Print Assumptions C14_linear_terminates.
