(* Property C01 — structures execute as specified (transpiled program == reference semantics).
   Only statements, each closed by `exact`, each followed by Print Assumptions.

   exec  = Model/Machine.v: what the Python emitted by transpile.py does (written beside the
           validated text model Model/Transpile.tr, one state change per emitted line);
   eval  = Model/RefSem.v: the documented structure semantics, context / input scope / own
           stack as brackets, no emitted code.
   Both return `xres state`: XOk s (stack, context values, input scopes and cursors, register,
   variables, printed text, printed flag, the two bookkeeping depths) | XErr e | XFuel, so an
   equation between them is "same stack, same text, same variables and register, same error,
   same out-of-fuel".  `core_program` (Model/Values.v) fixes what is quantified over: number
   literals, the 37 core elements, variables and function definitions at top level (not inside
   a def, where Python would create a local), if / for / while, the lambdas λ ƛ ' µ and the
   shorthands ⁽ ‡ ≬, named functions with numeric, named and `*` parameters, list literals, the
   modifiers v & ~ ß ƒ ɖ ₌ ₍; a nested def does not read a named parameter of an enclosing
   function (Python would use a closure cell).  NOT in the core (no statement is made): string
   / character / compressed literals, the ghost variable and `_` names, X x (break / recurse),
   assignments inside a def, triadic modifiers.  Dynamically outside both models (outcome
   XErr EStuck, never compared): a function value used as an if condition / for iterable
   (Structures.md: called first; implementation: taken as true / TypeError -- known finding
   C01-function-valued-condition), function values in arithmetic or printers, lazily applied
   bodies with side effects. *)
From Coq Require Import List NArith ZArith Bool.
From Vy Require Import Model.Base Model.Lexer Model.Parser Model.Transpile Model.Values Model.Machine Model.RefSem
  Proofs.C01Frames Proofs.C01Sim Proofs.C01Templates Proofs.C01Examples.
Import ListNotations.

(* THE theorem (full statement, all fuel, all states, all flag configurations, every nesting) *)
Theorem C01_compile_correct : forall cf fuel p s,
  core_program p = true -> exec cf fuel false p s = eval cf fuel p s.
Proof. exact compile_correct_program. Qed.
Print Assumptions C01_compile_correct.

(* the equation itself needs only the part of the grammar the evaluators enforce themselves
   (`core_ok`), at top level and inside a def: lambda and function bodies, list items, operands *)
Theorem C01_compile_correct_in_def : forall cf fuel indef p s,
  core_ok_list indef p = true -> exec cf fuel indef p s = eval cf fuel p s.
Proof. exact compile_correct_indef. Qed.
Print Assumptions C01_compile_correct_in_def.

(* whole programs: start-up (flag H), ranges (flags M m), the run, the implicit output of the top
   of the stack with the flags j s W O o *)
Theorem C01 : forall fl fuel inputs p,
  core_program p = true -> run_machine fl fuel inputs p = run_ref fl fuel inputs p.
Proof. exact program_correct_program. Qed.
Print Assumptions C01.

(* the reference semantics leaves the interpreter's context where it found it, for EVERY program
   (balance by construction), and so does the emitted code of a core program *)
Theorem C01_reference_balanced : forall cf fuel p s s', eval cf fuel p s = XOk s' -> frames s s'.
Proof. exact eval_frames. Qed.
Print Assumptions C01_reference_balanced.

Theorem C01_emitted_balanced : forall cf fuel p s s',
  core_ok_list false p = true -> exec cf fuel false p s = XOk s' -> frames s s'.
Proof. exact exec_frames. Qed.
Print Assumptions C01_emitted_balanced.

(* obligation over the regenerated tables: the template text and arity of every core element and
   the text of every core modifier are the ones the machine gives a meaning to *)
Theorem C01_templates :
  forallb element_matches expected_elements = true
  /\ map (fun e => fst (fst e)) expected_elements = core_keys
  /\ forallb modifier_matches expected_modifiers = true
  /\ map fst expected_modifiers = mod1_keys ++ mod2_keys.
Proof. exact templates_ok. Qed.
Print Assumptions C01_templates.

(* non-vacuity: a lambda called in an if in a for in an if; a two-argument function, a variable, a
   for loop, a map lambda and the implicit output; implicit input with flag W *)
Theorem C01_example_nested :
  exists p s, parse_source ex_src1 = Ok p /\ core_program p = true
    /\ run_machine FlNone 12 [] p = XOk s /\ run_ref FlNone 12 [] p = XOk s
    /\ stk s = [] /\ out s = text [[49]; [50]; [54]; [56]]%N.
Proof. exact example1. Qed.
Print Assumptions C01_example_nested.

Theorem C01_example_function :
  exists p s, parse_source ex_src2 = Ok p /\ core_program p = true
    /\ run_machine FlNone 12 [] p = XOk s /\ run_ref FlNone 12 [] p = XOk s
    /\ stk s = [] /\ out s = text [[10216; 32; 54; 32; 124; 32; 50; 32; 124; 32; 51; 32; 10217]]%N.
Proof. exact example2. Qed.
Print Assumptions C01_example_function.
