(* Property C01 — structures execute as specified (transpiled program == reference semantics).
   Only statements, each closed by `exact`, each followed by Print Assumptions.

   exec  = Model/Machine.v: what the Python emitted by transpile.py does (written beside the
           validated text model Model/Transpile.tr, one state change per emitted line);
   eval  = Model/RefSem.v: the documented structure semantics, context / input scope / own
           stack as brackets, no emitted code.
   Both return `xres state`: XOk s (stack, context values, input scopes and cursors, register,
   variables, printed text, printed flag, the two bookkeeping depths) | XErr e | XFuel, so an
   equation between them is "same stack, same text, same variables and register, same error,
   same out-of-fuel".  `core_program` (Model/Values.v) fixes what is quantified over: number
   literals and string literals (back-quoted, two-character, character, compressed; printable
   ASCII without escape pairs), the 37 core elements with their number / string / list overloads
   (Values.add_s ... not_s and the element table: + - * N › ‹ d ¬ = < > J L h t f Ṙ ∑ on strings,
   M F ṡ v ƒ ɖ and for over the characters of a string, a string is true when non-empty), variables, named loop variables and function definitions anywhere (inside a def
   they are locals of that def, with closure cells for the functions defined in it: Python's
   scoping of the emitted VAR_<x>, see Values.assigned / lookup_var / assign_var), if / for / while, the lambdas λ ƛ ' µ and the
   shorthands ⁽ ‡ ≬, named functions with numeric, named and `*` parameters, list literals, the
   modifiers v & ~ ß ƒ ɖ ₌ ₍; early exits: X in a for / while body (through ifs) = break, X in a
   plain lambda body (through ifs) = early return of the top of its stack, X at top level = nothing;
   x in a for body = continue, x in a plain lambda = recursion, x as the operand of a modifier = call
   of the function the modifier is used in, x at top level = print the stack.  NOT in the core (no statement is made): string
   literals with escapes or non-ASCII text, compressed numbers, the ghost variable and `_` names (attributes of ctx, not Python names),
   triadic modifiers, and -- by the decidable guards Values.break_core / recurse_core / recurse_ok --
   the early exits whose emitted line is not what the documents say: X / x in a while CONDITION
   (known finding C02-exit-in-while-condition), X in a map / filter / sort lambda, a named function,
   a list item or after a modifier (emitted `pass`), x in a while body (`continue` re-tests the stale
   condition), in a top-level if (`pass`), in a named function / map / filter / sort lambda / list
   item (prints the stack), after a modifier's operand (calls the caller's caller).  Dynamically outside both models (outcome
   XErr EStuck, never compared): a function value used as an if condition / for iterable
   (Structures.md: called first; implementation: taken as true / TypeError -- known finding
   C01-function-valued-condition), function values in arithmetic or printers, lazily applied
   bodies with side effects. *)
From Coq Require Import List NArith ZArith Bool.
From Vy Require Import Model.Base Model.Lexer Model.Parser Model.Transpile Model.Values Model.Machine Model.RefSem
  Proofs.C01Frames Proofs.C01Sim Proofs.C01Templates Proofs.C01Examples.
Import ListNotations.

(* THE theorem (full statement, all fuel, all states, all flag configurations, every nesting; recursion
   makes the fuel essential: out-of-fuel is an outcome of its own on both sides) *)
Theorem C01_compile_correct : forall cf fuel p s,
  core_program p = true -> exec cf fuel false p s = eval cf fuel p s.
Proof. exact compile_correct_program. Qed.
Print Assumptions C01_compile_correct.

(* the same for code standing inside a def or a loop body, where a statement list may end with an
   early exit: equal up to `lift`, the bookkeeping pops the emitted code performs BEFORE it jumps
   (ctx.context_values.pop() before break / continue, the four pops before `return ret`), which
   the reference evaluator leaves to its brackets; `lift` is the identity on every other outcome *)
Theorem C01_compile_correct_in_def : forall cf fuel indef il lam p s,
  core_ok_list indef il lam p = true -> exec cf fuel indef p s = lift (eval cf fuel p s).
Proof. exact compile_correct_indef. Qed.
Print Assumptions C01_compile_correct_in_def.

(* which early exits can leave a statement list: break only inside a loop, continue only inside a for
   loop, an early return only directly inside a plain lambda; none at the top level *)
Theorem C01_early_exits : forall cf fuel indef il lam p s,
  core_ok_list indef il lam p = true -> sig_ok il lam (eval cf fuel p s).
Proof. exact eval_signals. Qed.
Print Assumptions C01_early_exits.

(* whole programs: start-up (flag H), ranges (flags M m), the run, the implicit output of the top
   of the stack with the flags j s W O o *)
Theorem C01 : forall fl fuel inputs p,
  core_program p = true -> run_machine fl fuel inputs p = run_ref fl fuel inputs p.
Proof. exact program_correct_program. Qed.
Print Assumptions C01.

(* the reference semantics leaves the interpreter's context where it found it, for EVERY program and
   however a statement list ends (balance by construction), and so does the emitted code of a core program *)
Theorem C01_reference_balanced : forall cf fuel p s g s', eval cf fuel p s = XOk (g, s') -> frames s s'.
Proof. exact eval_frames. Qed.
Print Assumptions C01_reference_balanced.

Theorem C01_emitted_balanced : forall cf fuel p s g s',
  core_ok_list false LNone false p = true -> exec cf fuel false p s = XOk (g, s') -> frames s s'.
Proof. exact exec_frames. Qed.
Print Assumptions C01_emitted_balanced.

(* obligation over the regenerated tables: the template text and arity of every core element and
   the text of every core modifier are the ones the machine gives a meaning to *)
Theorem C01_templates :
  forallb element_matches expected_elements = true
  /\ map (fun e => fst (fst e)) expected_elements = core_keys
  /\ forallb modifier_matches expected_modifiers = true
  /\ map fst expected_modifiers = mod1_keys ++ mod2_keys.
Proof. exact templates_ok. Qed.
Print Assumptions C01_templates.

(* non-vacuity: a lambda called in an if in a for in an if; a two-argument function, a variable, a
   for loop, a map lambda and the implicit output *)
Theorem C01_example_nested :
  exists p s, parse_source ex_src1 = Ok p /\ core_program p = true
    /\ run_machine FlNone 12 [] p = XOk s /\ run_ref FlNone 12 [] p = XOk s
    /\ stk s = [] /\ out s = text [[49]; [50]; [54]; [56]]%N.
Proof. exact example1. Qed.
Print Assumptions C01_example_nested.

Theorem C01_example_function :
  exists p s, parse_source ex_src2 = Ok p /\ core_program p = true
    /\ run_machine FlNone 12 [] p = XOk s /\ run_ref FlNone 12 [] p = XOk s
    /\ stk s = [] /\ out s = text [[10216; 32; 54; 32; 124; 32; 50; 32; 124; 32; 51; 32; 10217]]%N.
Proof. exact example2. Qed.
Print Assumptions C01_example_function.

(* a recursive lambda that terminates with a value (5! = 120); a loop that breaks at its third item *)
Theorem C01_example_recursion :
  exists p s, parse_source ex_src_fact = Ok p /\ core_program p = true
    /\ run_machine FlNone 40 [] p = XOk s /\ run_ref FlNone 40 [] p = XOk s
    /\ stk s = [] /\ out s = text [[49; 50; 48]]%N.
Proof. exact example_fact. Qed.
Print Assumptions C01_example_recursion.

Theorem C01_example_break :
  exists p s, parse_source ex_src_break = Ok p /\ core_program p = true
    /\ run_machine FlNone 12 [] p = XOk s /\ run_ref FlNone 12 [] p = XOk s
    /\ stk s = [] /\ out s = text [[49]; [50]]%N.
Proof. exact example_break. Qed.
Print Assumptions C01_example_break.

(* the guard is decidable and does what the header says on the named classes *)
Theorem C01_guard_examples :
  core_of [123; 88; 124; 49; 125]%N = Some false                          (* {X|1} *)
  /\ core_of [51; 411; 53; 88; 57; 59]%N = Some false                     (* 3ƛ5X9; *)
  /\ core_of [64; 102; 58; 49; 124; 53; 88; 57; 59]%N = Some false        (* @f:1|5X9; *)
  /\ core_of [49; 123; 120; 125]%N = Some false                           (* 1{x} *)
  /\ core_of [64; 102; 58; 49; 124; 120; 59]%N = Some false               (* @f:1|x; *)
  /\ core_of [51; 40; 118; 43; 88; 41]%N = Some false                     (* 3(v+X) *)
  /\ core_of [51; 40; 110; 50; 61; 91; 88; 93; 41]%N = Some true          (* 3(n2=[X]) *)
  /\ core_of [955; 118; 120; 59]%N = Some true                            (* λvx; *)
  /\ core_of [955; 118; 43; 120; 59]%N = Some false.                      (* λv+x; *)
Proof. exact guard_examples. Qed.
Print Assumptions C01_guard_examples.

(* strings: a for loop over the characters of a string, concatenation, the string "0" is true; + over a list
   of a string and a number, printed back-quoted inside the list *)
Theorem C01_example_strings :
  (exists p s, parse_source ex_src_str1 = Ok p /\ core_program p = true
    /\ run_machine FlNone 12 [] p = XOk s /\ run_ref FlNone 12 [] p = XOk s
    /\ stk s = [] /\ out s = text [[97; 33]; [98; 33]; [121; 101; 115]]%N)
  /\ (exists p s, parse_source ex_src_str2 = Ok p /\ core_program p = true
    /\ run_machine FlNone 12 [] p = XOk s /\ run_ref FlNone 12 [] p = XOk s
    /\ stk s = [] /\ out s = text [[10216; 32; 96; 97; 98; 96; 32; 124; 32; 96; 49; 98; 96; 32; 10217]]%N).
Proof. exact example_strings. Qed.
Print Assumptions C01_example_strings.

(* a named function that calls itself by name and computes 5! = 120; a lambda defined inside a named
   function reads the function's named parameter and is called after the function has returned (7) *)
Theorem C01_example_named_recursion :
  exists p s, parse_source ex_src_named_rec = Ok p /\ core_program p = true
    /\ run_machine FlNone 40 [] p = XOk s /\ run_ref FlNone 40 [] p = XOk s
    /\ stk s = [] /\ out s = text [[49; 50; 48]]%N.
Proof. exact example_named_recursion. Qed.
Print Assumptions C01_example_named_recursion.

Theorem C01_example_closure :
  exists p s, parse_source ex_src_closure = Ok p /\ core_program p = true
    /\ run_machine FlNone 12 [] p = XOk s /\ run_ref FlNone 12 [] p = XOk s
    /\ stk s = [] /\ out s = text [[55]]%N.
Proof. exact example_closure. Qed.
Print Assumptions C01_example_closure.

(* Python scoping of the emitted VAR_<x>: `5→a λ←a 6→a;†` fails (the read precedes the lambda's own
   assignment), `5→a λ6→a;† ←a` prints 5 (the lambda's `a` is its own) *)
Theorem C01_example_scoping :
  (exists p, parse_source ex_src_unbound = Ok p /\ core_program p = true
     /\ run_machine FlNone 12 [] p = XErr EName /\ run_ref FlNone 12 [] p = XErr EName)
  /\ (exists p s, parse_source ex_src_local = Ok p /\ core_program p = true
     /\ run_machine FlNone 12 [] p = XOk s /\ run_ref FlNone 12 [] p = XOk s /\ out s = text [[53]]%N).
Proof. exact example_scoping. Qed.
Print Assumptions C01_example_scoping.
