(* Property C12 — interpreter context is balanced after every construct.
   Only statements, each closed by `exact`, each followed by Print Assumptions. *)
From Coq Require Import List NArith ZArith Bool.
From Vy Require Import Model.Base Model.Lexer Model.Parser Model.PyTree Model.Books
  Gen.BookFacts Proofs.ParserFacts Proofs.C12Proofs Proofs.ParseInvariants.
Import ListNotations.

(* outside the structure templates nothing changes the depth of the four lists: no element
   or modifier template touches them, LazyList.output pops what it pushes on every normal
   completion, and the only other sites are Context construction and start-up
   (facts re-read from the sources on every run) *)
Theorem C12_only_templates_touch_the_books :
  forallb allowed_site book_sites = true /\ template_book_sites = [] /\ lazylist_output_balanced = true.
Proof. exact book_facts. Qed.
Print Assumptions C12_only_templates_touch_the_books.

(* the analysis is sound: whatever branches are taken and however often loops run, code the
   analysis calls balanced can only end normally, at the depths it started with *)
Theorem C12_analysis_sound : forall l o, balanced l = true -> execl l d0 o -> o = (ONormal, d0).
Proof. exact balanced_runs. Qed.
Print Assumptions C12_analysis_sound.

(* every program tree, of any nesting depth, whose early exits stand where exit_ok allows
   (in a loop body or a lambda body, through ifs) is balanced ... *)
Theorem C12_balanced : forall l,
  forallb (exit_ok false false) l = true -> balanced (effects_program l) = true.
Proof. exact program_balanced. Qed.
Print Assumptions C12_balanced.

(* ... after every top-level statement too (so `n` outside loops and lambdas reads the
   top-level context) ... *)
Theorem C12_every_prefix : forall l k,
  forallb (exit_ok false false) l = true -> balanced (effects_program (firstn k l)) = true.
Proof. exact every_prefix_balanced. Qed.
Print Assumptions C12_every_prefix.

(* ... and therefore every run of it ends at the initial depths *)
Theorem C12_runs : forall l o,
  forallb (exit_ok false false) l = true -> execl (effects_program l) d0 o -> o = (ONormal, d0).
Proof. exact program_runs_balanced. Qed.
Print Assumptions C12_runs.

(* every def body (lambda, named function, list item) returns at the depth it was entered
   with, which is why calls are neutral: it is what `flow1` demands of each BDef block *)
Theorem C12_defs_balanced : forall s il lam, exit_ok il lam s = true -> frag_ok il lam (effects s).
Proof. exact effects_ok. Qed.
Print Assumptions C12_defs_balanced.

(* every program TEXT: the parent annotations the parser writes are consistent with where
   the early exits stand, so the side condition holds for whatever `parse` returns, except for
   an early exit written in a while condition (`wconds`, a SyntaxError recorded under C02) *)
Theorem C12_programs : forall src l k,
  parse_source src = Ok l -> forallb wconds l = true ->
  balanced (effects_program (firstn k l)) = true.
Proof.
  exact (fun src l k H W => every_prefix_balanced l k (parsed_exit_ok (Lexer.tokenise src) l H W)).
Qed.
Print Assumptions C12_programs.

Theorem C12_parser_annotations_consistent : forall ts l,
  parse_tokens ts = Ok l -> forallb wconds l = true -> forallb (exit_ok false false) l = true.
Proof. exact parsed_exit_ok. Qed.
Print Assumptions C12_parser_annotations_consistent.

(* premises are satisfiable:  3(n2=[X|x])  5λ2<[X]7;†  are fine;  {X|1} is excluded and
   indeed unbalanced *)
Example C12_nonvacuous :
  (exists l, parse_source [51;40;110;50;61;91;88;124;120;93;41;53;955;50;60;91;88;93;55;59;8224] = Ok l
             /\ forallb (exit_ok false false) l = true /\ balanced (effects_program l) = true
             /\ effects_program l <> [])
  /\ balanced_source [123;88;124;49;125] = Some false.
Proof.
  split; [eexists; split; [vm_compute; reflexivity|]; split; [vm_compute; reflexivity|]; split; [vm_compute; reflexivity|discriminate]|].
  vm_compute; reflexivity.
Qed.
Print Assumptions C12_nonvacuous.
