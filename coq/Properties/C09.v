(* Property C09 -- an element touches only the stack entries it consumes.
   Only statements, each closed by `exact`, each followed by Print Assumptions. *)
From Coq Require Import List NArith Bool.
From Vy Require Import Model.Base Model.StackEffect Proofs.StackEffectProofs Gen.StackTemplates.
Import ListNotations.
Open Scope nat_scope.

(* soundness of the static judgement, for every template tree, every behaviour F of the
   uninterpreted functions (values returned, exceptions, iteration, truth tests, the
   retain_popped / reverse_flag context flags at every pop, implicit input), every fuel:
   whatever lies below the top k entries is literally unchanged in the stack the template
   leaves -- also when it raises midway *)
Theorem C09_sound : forall (value : Type) (F : oracle value) (ar : list nat) fuel t k prefix args s',
  frame_ok ar t k = true -> length args = k ->
  run_tmpl F ar fuel t (prefix ++ args) = Some s' ->
  exists res, s' = prefix ++ res.
Proof. exact frame_sound. Qed.
Print Assumptions C09_sound.

(* nothing below the top k is even read: on two stacks with the same top k entries the
   template terminates alike and replaces them by the same results *)
Theorem C09_local : forall (value : Type) (F : oracle value) (ar : list nat) fuel t k prefix prefix' args,
  frame_ok ar t k = true -> length args = k ->
  match run_tmpl F ar fuel t (prefix ++ args), run_tmpl F ar fuel t (prefix' ++ args) with
  | Some r1, Some r2 => exists res, r1 = prefix ++ res /\ r2 = prefix' ++ res
  | None, None => True
  | _, _ => False
  end.
Proof. exact frame_local. Qed.
Print Assumptions C09_local.

(* the regenerated table: every element template judged against its declared arity and
   every modifier template judged against operand arities 0..4 (which covers every
   element of the table, C09_instances_cover) is a documented whole-stack operation
   (whole_stack_elements / whole_stack_modifiers in Model/StackEffect.v), a finding
   recorded in known_findings.json (c09_known), or frame_ok.  Partial: c09_known *)
Theorem C09_table_partial :
  stack_templates_ok = true /\
  arities_in_range element_templates = true /\
  forallb (inst_ok c09_known) (all_instances element_templates modifier_templates) = true.
Proof. exact table_ok. Qed.
Print Assumptions C09_table_partial.

Theorem C09_instances_cover : forall m a b,
  In m modifier_templates -> In a element_templates -> In b element_templates ->
  In (inst_of_mod m (t_arity a, t_arity b)) (all_instances element_templates modifier_templates).
Proof. exact instances_cover. Qed.
Print Assumptions C09_instances_cover.

(* table and soundness combined *)
Theorem C09_table_frame : forall (value : Type) (F : oracle value) i fuel prefix args s',
  In i (all_instances element_templates modifier_templates) ->
  whole_stack_listed i = false ->
  (negb (i_modifier i) && mem_str (i_key i) c09_known) = false ->
  length args = i_k i ->
  run_tmpl F (i_ar i) fuel (i_tmpl i) (prefix ++ args) = Some s' ->
  exists res, s' = prefix ++ res.
Proof. exact table_frame. Qed.
Print Assumptions C09_table_frame.

(* the model refutes the frame for the pinned `¨ẇ` template (recorded finding) *)
Theorem C09_wrap_n_refuted : exists s',
  run_tmpl Examples.F0 [] 10 Examples.wrap_n [41; 42; 2] = Some s' /\ ~ exists res, s' = [41; 42] ++ res.
Proof. exact Examples.wrap_n_refuted. Qed.
Print Assumptions C09_wrap_n_refuted.
