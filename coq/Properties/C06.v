(* Property C06 -- quoting a string and evaluating the quoted text returns the same string.
   Only statements, each closed by `exact`, each followed by Print Assumptions.

   Vocabulary (Model/Quote.v): quotify_str s = back-quote, quote_body s, back-quote, where
   quote_body doubles every backslash and puts a backslash before every back-quote
   (elements.quotify); escape_string (Model/Transpile.v) is the re-escaping loop of
   transpile_token; py_dq_decode is Python's reading of a double-quoted literal body,
   defined only on raw characters and the three escapes the pipeline emits, so
   `py_dq_decode .. = Some s` includes that no other escape, raw quote, raw line break or
   trailing lone backslash is met; pushed_string text = the string appended by the statement
   text; quotable_char c = c is not NUL, not a carriage return, not a surrogate and at most
   U+10FFFF (every code-page character is); 96 = back-quote. *)
From Coq Require Import List NArith ZArith Bool.
From Vy Require Import Model.Base Model.Lexer Model.Parser Model.Transpile Model.Literals Model.Quote
  Gen.Codepage Proofs.C04Lex Proofs.C06Proofs.
Import ListNotations.
Open Scope N_scope.

(* ---- C06_raw: dictionary compression off ---------------------------------------------------- *)
(* the exact class: all strings of quotable characters, of any length *)
Theorem C06_raw : forall s, forallb quotable_char s = true ->
  exists v, tokenise (quotify_str s) = [Tok KString v]
    /\ py_dq_decode (escape_string v) = Some s
    /\ exists text, token_text (fun x => x) (Tok KString v) = TOk text /\ pushed_string text = Some s.
Proof. exact quote_roundtrip_raw. Qed.
Print Assumptions C06_raw.

(* in particular every string over the Vyxal code page *)
Theorem C06_raw_codepage : forall s, forallb (fun c => mem c codepage) s = true ->
  exists v, tokenise (quotify_str s) = [Tok KString v]
    /\ py_dq_decode (escape_string v) = Some s
    /\ exists text, token_text (fun x => x) (Tok KString v) = TOk text /\ pushed_string text = Some s.
Proof. exact quote_roundtrip_codepage. Qed.
Print Assumptions C06_raw_codepage.

(* the class cannot be widened to all strings: a NUL character reaches the Python text raw *)
Theorem C06_raw_class_is_needed :
  exists s, tokenise (quotify_str s) = [Tok KString (quote_body s)]
    /\ py_dq_decode (escape_string (quote_body s)) = None.
Proof. exact quote_roundtrip_needs_class. Qed.
Print Assumptions C06_raw_class_is_needed.

(* ---- C06_dict: dictionary compression on, for every dictionary -------------------------------- *)
Theorem C06_dict : forall (small contents : list str) s, forallb printable_ascii s = true ->
  exists v, tokenise (quotify_str s) = [Tok KString v]
    /\ uncompress_dict small contents v = v
    /\ exists text, token_text (uncompress_dict small contents) (Tok KString v) = TOk text
                    /\ pushed_string text = Some s.
Proof. exact quote_roundtrip_dict. Qed.
Print Assumptions C06_dict.

(* what the proof uses: decompression is the identity on quoted strings without compression
   characters (printable ASCII and the newline are the code-page characters that are none) *)
Theorem C06_dict_identity : forall (small contents : list str) s,
  forallb (fun c => negb (mem c compression)) s = true ->
  uncompress_dict small contents (quote_body s) = quote_body s.
Proof. exact uncompress_dict_quote_body. Qed.
Print Assumptions C06_dict_identity.

(* beyond them the statement with compression on is false, as the property says *)
Theorem C06_dict_limit :
  exists small contents s,
    forallb (fun c => mem c codepage) s = true
    /\ uncompress_dict small contents (quote_body s) <> quote_body s.
Proof. exact dict_changes_compression_chars. Qed.
Print Assumptions C06_dict_limit.

(* ---- C06_backquote: a back-quoted literal with escaped backslashes and back-quotes, anywhere
   in a program (after text that leaves the lexer between tokens), closed or cut off by the end
   of the program, is one STRING token and pushes its contents ------------------------------------- *)
Theorem C06_backquote : forall pre s post,
  flushing (mode_after pre) = true -> forallb quotable_char s = true ->
  tokenise (pre ++ 96 :: quote_body s ++ 96 :: post) = tokenise pre ++ Tok KString (quote_body s) :: tokenise post
  /\ tokenise (pre ++ 96 :: quote_body s) = tokenise pre ++ [Tok KString (quote_body s)]
  /\ exists text, token_text (fun x => x) (Tok KString (quote_body s)) = TOk text /\ pushed_string text = Some s.
Proof. exact backquoted_literal. Qed.
Print Assumptions C06_backquote.

(* ---- non-vacuity ------------------------------------------------------------------------------------ *)
Example C06_raw_nonvacuous :
  let s := [97; 92; 96; 34; 10; 955] in
  forallb (fun c => mem c codepage) s = true
  /\ quotify_str s = [96; 97; 92; 92; 92; 96; 34; 10; 955; 96]
  /\ tokenise (quotify_str s) = [Tok KString [97; 92; 92; 92; 96; 34; 10; 955]]
  /\ escape_string [97; 92; 92; 92; 96; 34; 10; 955] = [97; 92; 92; 96; 92; 34; 92; 110; 955]
  /\ py_dq_decode [97; 92; 92; 96; 92; 34; 92; 110; 955] = Some s
  /\ py_dq_decode [92; 97] = None /\ py_dq_decode [34] = None /\ py_dq_decode [97; 92] = None.
Proof. exact raw_example. Qed.
Print Assumptions C06_raw_nonvacuous.

Example C06_dict_nonvacuous :
  let s := [104; 105; 32; 92; 96] in
  forallb printable_ascii s = true
  /\ uncompress_dict [[120]] [[121]] (quote_body s) = quote_body s
  /\ uncompress_dict [[120]] [[121]] [955; 955; 97; 955] = [121; 97; 120]
  /\ flushing (mode_after [49; 32]) = true.
Proof. exact dict_example. Qed.
Print Assumptions C06_dict_nonvacuous.
