(* Property C10 — values are immutable: no element changes a value another reference can see.
   Only statements, each closed by `exact`, each followed by Print Assumptions.

   Summary part (Model/Effects.v part 1, data in Gen/Mutation.v regenerated from /repo):
   `may_mutate nodes v` is the least fixed point of "node v = (function, parameter) has a
   mutation site on an alias of that parameter, or passes an alias to a node that may";
   `exec` is an execution of the summary semantics (what happens to one tracked object: direct
   mutation events and calls that pass it on, in any order, to any depth).
   Heap part (part 2): references into a store of eager list objects, lazy copies of them
   (deep_copy = a view of the same object) and the lazy cells of C13.
   PARTIAL for "every element": the statements about the table are about the translator's
   summary of the function bodies, not the bodies; full for the named mechanisms. *)
From Coq Require Import List NArith ZArith Bool.
From Vy Require Import Model.Base Model.LazyList Model.Effects Proofs.EffectsProofs Proofs.C10Table Gen.Mutation.
Import ListNotations.

(* the iteration is monotone, its result is a fixed point of the rule, and the least one *)
Theorem C10_closure_monotone : forall nodes s t, fle s t -> fle (mstep nodes s) (mstep nodes t).
Proof. exact mstep_mono. Qed.
Print Assumptions C10_closure_monotone.

Theorem C10_closure_fixed : forall nodes, mstep nodes (mlfp nodes) = mlfp nodes.
Proof. exact mlfp_fixed. Qed.
Print Assumptions C10_closure_fixed.

Theorem C10_closure_rule : forall nodes v nd, node_of nodes v = Some nd ->
  may_mutate nodes v = mn_direct nd || existsb (may_mutate nodes) (mn_calls nd).
Proof. exact may_mutate_rule. Qed.
Print Assumptions C10_closure_rule.

Theorem C10_closure_least : forall nodes t, length t = length nodes ->
  fle (mstep nodes t) t -> fle (mlfp nodes) t.
Proof. exact mlfp_least. Qed.
Print Assumptions C10_closure_least.

(* soundness for the summary semantics: an unflagged (function, parameter) performs no
   mutation on the object bound to that parameter, in any execution, at any call depth *)
Theorem C10_closure_sound : forall nodes e, valid_exec nodes e = true ->
  may_mutate nodes (root e) = false -> mutations e = 0%nat.
Proof. exact may_mutate_sound. Qed.
Print Assumptions C10_closure_sound.

(* the table sweep on the regenerated summary: every element and every modifier template
   outside the listed suspects has no mutation site of its own on a value it took from the
   stack and hands such values only to (function, parameter) nodes no execution of which
   mutates them *)
Theorem C10_pure_table_partial :
  (forall t, In t mut_elements -> mem_str (mt_key t) c10_suspect_elements = false -> templ_clean t) /\
  (forall t, In t mut_modifiers -> mem_str (mt_key t) c10_suspect_modifiers = false -> templ_clean t).
Proof. exact pure_table. Qed.
Print Assumptions C10_pure_table_partial.

Theorem C10_table_checks :
  mutation_translator_ok = true /\ nodes_wf mut_nodes = true /\
  pure_outside the_flags c10_suspect_elements mut_elements = true /\
  pure_outside the_flags c10_suspect_modifiers mut_modifiers = true.
Proof. exact table_checks. Qed.
Print Assumptions C10_table_checks.

(* copy on duplicate, read off the templates: `:` pushes one deep_copy next to the original,
   `D` two, `Ḃ` one, `¾` a copy of the global array; none pushes the same name bare twice *)
Theorem C10_dup_templates_copy : dup_templates_ok dup_templates = true.
Proof. exact dup_templates_copy. Qed.
Print Assumptions C10_dup_templates_copy.

(* the context attributes changed in place (derived from the templates' and functions' mutation
   sites: ctx.global_array by ⅛ and ¼, ...) are pushed only as materialised copies; and the
   obligation is not vacuous: such an attribute is pushed *)
Theorem C10_ctx_pushes_materialised :
  ctx_pushes_ok ctx_inplace_attrs ctx_pushes = true /\
  existsb (fun p => mem_str (cp_attr p) ctx_inplace_attrs) ctx_pushes = true.
Proof. exact ctx_pushes_materialised. Qed.
Print Assumptions C10_ctx_pushes_materialised.

(* why: a lazy view of a list that is appended to afterwards grows, a materialised snapshot
   does not ( `1⅛ ¾ 2⅛` ) *)
Example C10_snapshot_vs_view :
  let st := snd (estep {| objs := [[1]; [1]]%Z; copies := []; lz := [] |} (EDup 0)) in
  rden (erun st [EAppend 0 2]) (REager 1) = [1]%Z /\ rden (erun st [EAppend 0 2]) (RCopy 0) = [1; 2]%Z.
Proof. exact snapshot_vs_view. Qed.
Print Assumptions C10_snapshot_vs_view.

(* after `:` (dup st r = the state with deep_copy(top) pushed, and the new reference), any
   sequence of non-mutating operations - every observation of C13 on either reference or
   on any other, reads, further duplications - leaves both references denoting what the
   original denoted; eager and lazy originals *)
Theorem C10_copy : forall st r st1 r' es, swf st -> rvalid st r -> dup st r = Some (st1, r') ->
  Forall nonmut es ->
  rden (erun st1 es) r = rden st r /\ rden (erun st1 es) r' = rden st r.
Proof. exact copy_kept. Qed.
Print Assumptions C10_copy.

(* `D`: two copies of the same original *)
Theorem C10_triplicate : forall st r st1 r1 st2 r2 es, swf st -> rvalid st r ->
  dup st r = Some (st1, r1) -> dup st1 r = Some (st2, r2) -> Forall nonmut es ->
  rden (erun st2 es) r = rden st r /\ rden (erun st2 es) r1 = rden st r /\ rden (erun st2 es) r2 = rden st r.
Proof. exact triplicate_kept. Qed.
Print Assumptions C10_triplicate.

(* one non-mutating step: well-formedness, the eager objects and every reference are kept *)
Theorem C10_step : forall st e, swf st -> mutating e = false -> eop_ok e = true ->
  swf (snd (estep st e)) /\ objs (snd (estep st e)) = objs st /\
  forall r, rvalid st r -> rvalid (snd (estep st e)) r /\ rden (snd (estep st e)) r = rden st r.
Proof. exact estep_frame. Qed.
Print Assumptions C10_step.

(* an observation of a copy of an eager list returns what the plain list returns *)
Theorem C10_copy_observes : forall k w st, cgood k st -> eop_ok (ECObs k w) = true ->
  mask w (fst (cobs k w st)) = spec w (cden k st) /\ Rc st (snd (cobs k w st)).
Proof. exact cobs_ok. Qed.
Print Assumptions C10_copy_observes.

(* the in-place primitives of the heap model break a copy (facts about the model's primitives;
   which code applies them to a shared object is decided by the summary and the oracle) *)
Theorem C10_inplace_assign_breaks_copy :
  exists st r st1 r', swf st /\ rvalid st r /\ dup st r = Some (st1, r') /\
    rden st1 r' = [1; 2; 3]%Z /\ rden (erun st1 [EAssign 0 0 9]) r' = [9; 2; 3]%Z.
Proof. exact assign_changes_copy. Qed.
Print Assumptions C10_inplace_assign_breaks_copy.

Theorem C10_inplace_append_breaks_view :
  exists st r st1 r', swf st /\ rvalid st r /\ dup st r = Some (st1, r') /\
    rden st1 r' = [1; 2]%Z /\
    rden (erun st1 [ECObs 0 (KIndex 0); EAppend 0 3; EAppend 0 5]) r' = [1; 2; 3; 5]%Z.
Proof. exact append_changes_copy. Qed.
Print Assumptions C10_inplace_append_breaks_view.

Theorem C10_setitem_breaks_view :
  exists st r st1 r', swf st /\ rvalid st r /\ dup st r = Some (st1, r') /\
    rden st1 r' = [1; 2; 3]%Z /\ rden (erun st1 [ESetLazy 0 1 9]) r' = [1; 9; 3]%Z.
Proof. exact setitem_changes_copy. Qed.
Print Assumptions C10_setitem_breaks_view.

(* the damage depends on the history: an item the copy has already cached is out of reach *)
Example C10_assign_after_read_unseen :
  rden (erun (snd (estep (st_eager [1; 2; 3]%Z) (EDup 0))) [ECObs 0 KListify; EAssign 0 0 9]) (RCopy 0)
    = [1; 2; 3]%Z.
Proof. exact assign_after_read_unseen. Qed.
Print Assumptions C10_assign_after_read_unseen.

(* non-vacuity *)
Example C10_example_summary :
  mlfp ex_nodes = [true; true; true; false] /\
  valid_exec ex_nodes ex_exec_bad = true /\ mutations ex_exec_bad = 2%nat /\ may_mutate ex_nodes 0%N = true /\
  valid_exec ex_nodes ex_exec_clean = true /\ may_mutate ex_nodes (root ex_exec_clean) = false /\
  mutations ex_exec_clean = 0%nat /\
  valid_exec ex_nodes (Exec 3%N 1 []) = false.
Proof. exact example_summary. Qed.
Print Assumptions C10_example_summary.

Example C10_example_table :
  existsb (fun t => negb (mem_str (mt_key t) c10_suspect_elements)
                    && negb (match mt_calls t with [] => true | _ => false end)) mut_elements = true /\
  existsb (templ_may_mutate the_flags) mut_elements = true.
Proof. exact pure_table_nonvacuous. Qed.
Print Assumptions C10_example_table.

Example C10_example_copy :
  Forall nonmut ex_es /\ Forall nonmut ex_ls /\
  dup (st_eager [4; 5; 6]%Z) (REager 0) = Some (snd (estep (st_eager [4; 5; 6]%Z) (EDup 0)), RCopy 0) /\
  map (rden (erun (snd (estep (st_eager [4; 5; 6]%Z) (EDup 0))) ex_es)) [REager 0; RCopy 0; RCopy 1]
    = [[4; 5; 6]; [4; 5; 6]; [4; 5; 6]]%Z /\
  map (fun e => fst (estep (snd (estep (st_eager [4; 5; 6]%Z) (EDup 0))) e)) [ECObs 0 (KIndex 1); ECObs 0 KReversed]
    = [OZ 5; OL [6; 5; 4]%Z] /\
  map (rden (erun (snd (estep (st_lazy [7; 8]%Z) (EObs {| target := 0; what := KCopy |}))) ex_ls)) [RLazy 0; RLazy 1; RLazy 2]
    = [[7; 8]; [7; 8]; [7; 8]]%Z.
Proof. exact example_copy. Qed.
Print Assumptions C10_example_copy.
