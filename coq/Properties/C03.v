(* Property C03 — literal contents and comments are data, never syntax.
   Only statements, each closed by `exact`, each followed by Print Assumptions. *)
From Coq Require Import List NArith ZArith Bool.
From Vy Require Import Model.Base Model.Lexer Model.Parser Gen.ParserConsts
  Proofs.ParserFacts Proofs.C04Proofs Proofs.C04Lex Proofs.C03Proofs Proofs.C03Lex.
Import ListNotations.
Open Scope N_scope.

(* every syntax decision of parse.py is conjoined with a token-kind test (flags read
   from the source's AST on every run) *)
Theorem C03_guards_in_source :
  break_kind_guarded = true /\ recurse_kind_guarded = true /\ open_kind_guarded = true
  /\ monadic_kind_guarded = true /\ dyadic_kind_guarded = true /\ triadic_kind_guarded = true
  /\ gb_open_kind_guarded = true /\ gb_pipe_kind_guarded = true /\ gb_close_kind_guarded = true.
Proof. exact guards_present. Qed.
Print Assumptions C03_guards_in_source.

(* a literal token is always a plain statement, whatever its payload ... *)
Theorem C03_literal_is_statement : forall t,
  is_literal_kind (tk t) = true -> classify t = AEmit (fun _ => SGeneric t).
Proof. exact classify_literal. Qed.
Print Assumptions C03_literal_is_statement.

(* ... and inside a structure it is always appended to the current branch *)
Theorem C03_literal_in_branch : forall t top below cur done,
  is_literal_kind (tk t) = true -> gb_step t top below cur done = (top :: below, cur ++ [t], done).
Proof. exact gb_step_literal. Qed.
Print Assumptions C03_literal_in_branch.

(* grouping into branches is independent of literal payloads (no side condition) *)
Theorem C03_branches : forall ts1 ts2 cl, leq ts1 ts2 ->
  let '(b1, a1) := get_branches ts1 [cl] [] [] in
  let '(b2, a2) := get_branches ts2 [cl] [] [] in
  lleq b1 b2 /\ leq a1 a2.
Proof. exact get_branches_equiv. Qed.
Print Assumptions C03_branches.

(* the whole tree: token lists that differ only in literal payloads parse to trees that
   differ only in those payloads (same structures, branches, operands, names, errors),
   provided no literal sits in a name / parameter / arity branch *)
Theorem C03_tokens : forall ts1 ts2,
  leq ts1 ts2 -> names_lit_free (S (length ts1)) ts1 = true ->
  shape_res (parse_tokens ts1) = shape_res (parse_tokens ts2).
Proof. exact parse_tokens_literal_independent. Qed.
Print Assumptions C03_tokens.

(* source level, one theorem per literal kind: payloads of any length *)
Theorem C03_source_delimited : forall pre d p1 p2 post,
  flushing (mode_after pre) = true -> mem d lex_string_delims = true ->
  payload_plain d p1 = true -> payload_plain d p2 = true ->
  let t1 := tokenise (pre ++ d :: p1 ++ d :: post) in
  let t2 := tokenise (pre ++ d :: p2 ++ d :: post) in
  leq t1 t2 /\
  (names_lit_free (S (length t1)) t1 = true -> shape_res (parse_tokens t1) = shape_res (parse_tokens t2)).
Proof. exact source_delimited_payload_independent. Qed.
Print Assumptions C03_source_delimited.

Theorem C03_source_char : forall pre c1 c2 post,
  flushing (mode_after pre) = true ->
  let t1 := tokenise (pre ++ 92 :: c1 :: post) in
  let t2 := tokenise (pre ++ 92 :: c2 :: post) in
  leq t1 t2 /\
  (names_lit_free (S (length t1)) t1 = true -> shape_res (parse_tokens t1) = shape_res (parse_tokens t2)).
Proof. exact source_char_payload_independent. Qed.
Print Assumptions C03_source_char.

Theorem C03_source_codepage_number : forall pre c1 c2 post,
  flushing (mode_after pre) = true ->
  let t1 := tokenise (pre ++ 8314 :: c1 :: post) in
  let t2 := tokenise (pre ++ 8314 :: c2 :: post) in
  leq t1 t2 /\
  (names_lit_free (S (length t1)) t1 = true -> shape_res (parse_tokens t1) = shape_res (parse_tokens t2)).
Proof. exact source_cpnum_payload_independent. Qed.
Print Assumptions C03_source_codepage_number.

Theorem C03_source_two_char_string : forall pre a1 b1 a2 b2 post,
  flushing (mode_after pre) = true ->
  let t1 := tokenise (pre ++ 8219 :: a1 :: b1 :: post) in
  let t2 := tokenise (pre ++ 8219 :: a2 :: b2 :: post) in
  leq t1 t2 /\
  (names_lit_free (S (length t1)) t1 = true -> shape_res (parse_tokens t1) = shape_res (parse_tokens t2)).
Proof. exact source_twochar_payload_independent. Qed.
Print Assumptions C03_source_two_char_string.

Theorem C03_source_comment : forall pre p1 p2 post,
  flushing (mode_after pre) = true -> mem ch_newline p1 = false -> mem ch_newline p2 = false ->
  tokenise (pre ++ 35 :: p1 ++ ch_newline :: post) = tokenise (pre ++ 35 :: p2 ++ ch_newline :: post).
Proof. exact source_comment_independent. Qed.
Print Assumptions C03_source_comment.

(* premises are satisfiable:  [1|»  |]X  »|2]  with payloads "|]X" / "ab" *)
Example C03_nonvacuous :
  let pre := [91; 49; 124] in let post := [124; 50; 93] in
  flushing (mode_after pre) = true /\ mem 187 lex_string_delims = true
  /\ payload_plain 187 [124; 93; 88] = true /\ payload_plain 187 [97; 98] = true
  /\ names_lit_free 20 (tokenise (pre ++ 187 :: [124; 93; 88] ++ 187 :: post)) = true
  /\ exists l, parse_tokens (tokenise (pre ++ 187 :: [124; 93; 88] ++ 187 :: post)) = Ok l /\ l <> [].
Proof.
  repeat split; try (vm_compute; reflexivity).
  eexists. split; [vm_compute; reflexivity|discriminate].
Qed.
Print Assumptions C03_nonvacuous.
