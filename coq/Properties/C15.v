(* Property C15 — compression and base-conversion codecs round-trip.
   Only statements, each closed by `exact`, each followed by Print Assumptions.
   Model: Model/Codec.v (alphabets regenerated from vyxal/encoding.py); proofs:
   Proofs/CodecProofs.v.  Every statement is for all integers / all lengths.

   `_partial` marks the statements about the element tau (to_base) and the two
   base-255 compression elements: the code takes the number of digits from
   int(nsimplify(math.log(n, b))), a float computation outside the model, which is
   the parameter e.  What is proved: the round trip holds exactly when
   b^(e+1) > n (and fails whenever b^(e+1) <= n).  What is missing: that the float
   expression satisfies b^(e+1) > n; the check measures it on every sample.  The
   `_exact` statements instantiate e with the true digit count and have no such
   hypothesis. *)
From Coq Require Import List NArith ZArith Bool.
From Vy Require Import Model.Base Model.Lexer Model.Codec Proofs.CodecProofs Gen.Codepage.
Import ListNotations.
Open Scope Z_scope.

(* helpers.to_base_digits / from_base_digits: integer -> digits -> integer, digits inside the base *)
Theorem C15_from_to_digits : forall n b, 0 <= n -> 2 <= b ->
  exists ds, to_base_digits n b = Some ds /\ from_base_digits ds b = n
             /\ Forall (fun d => 0 <= d < b) ds.
Proof. exact from_to_digits. Qed.
Print Assumptions C15_from_to_digits.

(* digits -> integer -> digits for digit lists without a leading zero *)
Theorem C15_to_from_digits : forall b ds, 2 <= b -> ds <> [] -> Forall (fun d => 0 <= d < b) ds ->
  (0 < hd 0 ds \/ ds = [0]) -> to_base_digits (from_base_digits ds b) b = Some ds.
Proof. exact to_from_digits. Qed.
Print Assumptions C15_to_from_digits.

(* any duplicate-free alphabet of length >= 2 *)
Theorem C15_from_to_alphabet : forall a n, NoDup a -> 2 <= zlen a -> 0 <= n ->
  exists s, to_base_alphabet n a = Some s /\ from_base_alphabet s a = n /\ Forall (fun c => In c a) s.
Proof. exact from_to_alphabet. Qed.
Print Assumptions C15_from_to_alphabet.

Theorem C15_to_from_alphabet : forall a s, 2 <= zlen a -> s <> [] -> Forall (fun c => In c a) s ->
  (zfind (hd 0%N s) a <> 0 \/ length s = 1%nat) ->
  to_base_alphabet (from_base_alphabet s a) a = Some s.
Proof. exact to_from_alphabet. Qed.
Print Assumptions C15_to_from_alphabet.

(* elements tau / beta with a numeric base: what the loop computes, for every e *)
Theorem C15_to_base_value : forall e n b, 2 <= b ->
  from_base_digits (to_base_e e n b) b = n mod b ^ Z.of_nat (S (elem_exponent e n)).
Proof. exact to_base_e_value. Qed.
Print Assumptions C15_to_base_value.

Theorem C15_to_base_exp_partial : forall e n b, 2 <= b -> 0 <= n -> n < b ^ Z.of_nat (S e) ->
  from_base_num (to_base_e e n b) b = n /\ Forall (fun d => 0 <= d < b) (to_base_e e n b).
Proof. exact to_base_exp. Qed.
Print Assumptions C15_to_base_exp_partial.

(* the exact failure condition: an under-estimated exponent never round-trips *)
Theorem C15_to_base_under_estimate : forall e n b, 2 <= b -> 0 <= n -> b ^ Z.of_nat (S e) <= n ->
  from_base_num (to_base_e e n b) b <> n.
Proof. exact to_base_exp_under. Qed.
Print Assumptions C15_to_base_under_estimate.

Theorem C15_exact_exponent : forall n b, 2 <= b -> 0 <= n -> n < b ^ Z.of_nat (S (exact_exponent n b)).
Proof. exact exact_exponent_ok. Qed.
Print Assumptions C15_exact_exponent.

(* the lexer yields exactly one token holding the payload when the payload is free
   of the delimiter *)
Theorem C15_lex_compressed_number : forall payload, ~ In 187%N payload ->
  tokenise ([187%N] ++ payload ++ [187%N]) = [Tok KCompNumber payload].
Proof. exact lex_comp_number. Qed.
Print Assumptions C15_lex_compressed_number.

Theorem C15_lex_compressed_string : forall payload, ~ In 171%N payload ->
  tokenise ([171%N] ++ payload ++ [171%N]) = [Tok KCompString payload].
Proof. exact lex_comp_string. Qed.
Print Assumptions C15_lex_compressed_string.

Theorem C15_lex_backquoted : forall payload, ~ In 96%N payload -> ~ In 92%N payload ->
  tokenise ([96%N] ++ payload ++ [96%N]) = [Tok KString payload].
Proof. exact lex_backquoted. Qed.
Print Assumptions C15_lex_backquoted.

(* element oC on n >= 1: one compressed-number token, payload of e+1 characters
   decoding to n *)
Theorem C15_compress_num_partial : forall e n, 1 <= n -> n < 255 ^ Z.of_nat (S e) ->
  exists p, compress_num e n = Some (ch_num_delim :: p ++ [ch_num_delim])
    /\ tokenise (ch_num_delim :: p ++ [ch_num_delim]) = [Tok KCompNumber p]
    /\ uncompress_num p = n /\ length p = S e.
Proof. exact compress_num_roundtrip. Qed.
Print Assumptions C15_compress_num_partial.

Theorem C15_compress_num_exact : forall n, 1 <= n ->
  exists p, compress_num (exact_exponent n 255) n = Some (ch_num_delim :: p ++ [ch_num_delim])
    /\ tokenise (ch_num_delim :: p ++ [ch_num_delim]) = [Tok KCompNumber p]
    /\ uncompress_num p = n.
Proof. exact compress_num_exact. Qed.
Print Assumptions C15_compress_num_exact.

(* the helpers' own encoder: no exponent involved *)
Theorem C15_uncompress_num_alphabet : forall n, 0 <= n ->
  exists p, to_base_alphabet n codepage_number_compress = Some p /\ uncompress_num p = n
            /\ ~ In ch_num_delim p.
Proof. exact uncompress_num_alphabet. Qed.
Print Assumptions C15_uncompress_num_alphabet.

(* element oc on a NON-EMPTY string over [a-z ] not starting with a space (the empty
   string does not round-trip: ex_empty_string_lost) *)
Theorem C15_compress_str_partial : forall e s, s <> [] -> lower_space s -> hd 0%N s <> ch_space ->
  from_base_alphabet s base_27_alphabet < 255 ^ Z.of_nat (S e) ->
  exists p, compress_str e s = Some (ch_str_delim :: p ++ [ch_str_delim])
    /\ tokenise (ch_str_delim :: p ++ [ch_str_delim]) = [Tok KCompString p]
    /\ uncompress_str p = Some s.
Proof. exact compress_str_roundtrip. Qed.
Print Assumptions C15_compress_str_partial.

Theorem C15_compress_str_exact : forall s, s <> [] -> lower_space s -> hd 0%N s <> ch_space ->
  exists p, compress_str (exact_exponent (from_base_alphabet s base_27_alphabet) 255) s
            = Some (ch_str_delim :: p ++ [ch_str_delim])
    /\ tokenise (ch_str_delim :: p ++ [ch_str_delim]) = [Tok KCompString p]
    /\ uncompress_str p = Some s.
Proof. exact compress_str_exact. Qed.
Print Assumptions C15_compress_str_exact.

(* dictionary decompression leaves printable ASCII (no backslash) alone, whatever
   the dictionaries are *)
Theorem C15_uncompress_dict_ascii : forall contents_at small_at s, printable_ascii s ->
  uncompress_dict contents_at small_at s = s.
Proof. exact ascii_passthrough. Qed.
Print Assumptions C15_uncompress_dict_ascii.

(* element oD, for ANY dictionary whose lookup is sound: the text is one string
   token, its payload decompresses to s, and the text is never longer than the
   plain literal `s` (both count the two back-quotes) *)
Theorem C15_optimal_compress : forall contents_at small_at lookup max_word_len,
  (forall w i, lookup w = Some i -> 0 <= i < zlen compression * zlen compression /\ contents_at i = Some w) ->
  forall s, printable_ascii s ->
    tokenise (optimal_compress lookup max_word_len s) = [Tok KString (optimal_payload lookup max_word_len s)]
    /\ uncompress_dict contents_at small_at (optimal_payload lookup max_word_len s) = s
    /\ (length (optimal_compress lookup max_word_len s) <= length (ch_backquote :: s ++ [ch_backquote]))%nat.
Proof. exact optimal_ascii. Qed.
Print Assumptions C15_optimal_compress.

(* non-vacuity: concrete instances satisfying the hypotheses above *)
Theorem C15_nonvacuous_digits :
  to_base_digits 1000 7 = Some [2; 6; 2; 6] /\ from_base_digits [2; 6; 2; 6] 7 = 1000.
Proof. exact ex_from_to_digits. Qed.
Print Assumptions C15_nonvacuous_digits.

Theorem C15_nonvacuous_exponent :
  to_base_e 2 65025 255 = [1; 0; 0] /\ to_base_e 3 65025 255 = [0; 1; 0; 0] /\ 65025 < 255 ^ Z.of_nat 3.
Proof. exact ex_to_base_exp. Qed.
Print Assumptions C15_nonvacuous_exponent.

Theorem C15_nonvacuous_under_estimate : to_base_e 1 65025 255 = [0; 0] /\ 255 ^ Z.of_nat 2 <= 65025.
Proof. exact ex_to_base_under. Qed.
Print Assumptions C15_nonvacuous_under_estimate.

Theorem C15_nonvacuous_compress_num :
  compress_num 1 300 = Some [187; 411; 46; 187]%N
  /\ tokenise [187; 411; 46; 187]%N = [Tok KCompNumber [411; 46]%N]
  /\ uncompress_num [411; 46]%N = 300 /\ 300 < 255 ^ Z.of_nat 2.
Proof. exact ex_compress_num. Qed.
Print Assumptions C15_nonvacuous_compress_num.

Theorem C15_nonvacuous_compress_str :
  compress_str 0 [104; 105]%N = Some [171; 8800; 171]%N
  /\ tokenise [171; 8800; 171]%N = [Tok KCompString [8800]%N]
  /\ uncompress_str [8800]%N = Some [104; 105]%N
  /\ lower_space [104; 105]%N /\ hd 0%N [104; 105]%N <> ch_space.
Proof. exact ex_compress_str. Qed.
Print Assumptions C15_nonvacuous_compress_str.

(* the exclusions of the statement are necessary on the model *)
Theorem C15_empty_string_refuted :
  compress_str 0 [] = Some [171; 955; 171]%N /\ uncompress_str [955]%N = Some [32]%N.
Proof. exact ex_empty_string_lost. Qed.
Print Assumptions C15_empty_string_refuted.

Theorem C15_nonvacuous_dictionary :
  (forall w i, toy_lookup w = Some i -> 0 <= i < zlen compression * zlen compression /\ toy_contents i = Some w)
  /\ printable_ascii [116; 104; 101; 32; 99; 97; 116; 33]%N
  /\ optimal_compress toy_lookup 18 [116; 104; 101; 32; 99; 97; 116; 33]%N = [96; 955; 955; 32; 411; 411; 33; 96]%N
  /\ uncompress_dict toy_contents (fun _ => None) [955; 955; 32; 411; 411; 33]%N = [116; 104; 101; 32; 99; 97; 116; 33]%N.
Proof. exact (conj toy_sound (conj ex_printable ex_optimal)). Qed.
Print Assumptions C15_nonvacuous_dictionary.
