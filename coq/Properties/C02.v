(* Property C02 — every well-formed program transpiles to Python that compiles.
   Only statements, each closed by `exact`, each followed by Print Assumptions. *)
From Coq Require Import List NArith ZArith Bool String Ascii.
From Vy Require Import Model.Base Model.Lexer Model.Parser Model.Transpile Model.PyTree Model.PyShape
  Gen.Elements Gen.TemplateShapes Proofs.ParserFacts Proofs.C02Proofs Proofs.ParseInvariants
  Model.Provenance Model.Layout Proofs.LayoutTemplates Proofs.LayoutBlocks Proofs.LayoutProofs.
Import ListNotations.

(* every element and modifier template of the regenerated tables is, on its own, a
   non-empty sequence of statements Python accepts in any position: it parses (no NBad),
   its suites are non-empty, and it contains no break / continue / return that would need
   an enclosing loop or def *)
Theorem C02_templates :
  forallb (fun e => tmpl_good (snd e)) elem_shapes = true
  /\ forallb (fun e => tmpl_good (snd e)) modif_shapes = true.
Proof. exact templates_good. Qed.
Print Assumptions C02_templates.

(* the code emitted for ANY program tree (every structure kind, modifier and nesting depth)
   satisfies Python's context conditions, provided early exits stand where ctx_ok allows *)
Theorem C02_context_conditions : forall l,
  forallb (ctx_ok false false) l = true -> py_wf (shape_program l) = true.
Proof. exact program_py_wf. Qed.
Print Assumptions C02_context_conditions.

(* in particular every program without X / x *)
Theorem C02_without_early_exits : forall l,
  forallb no_jumps l = true -> py_wf (shape_program l) = true.
Proof. exact program_without_jumps_py_wf. Qed.
Print Assumptions C02_without_early_exits.

(* the side condition is exactly about where break/recurse stand: in a loop body through
   ifs, or in a lambda through ifs and lists *)
Theorem C02_side_condition_only_about_exits : forall s il idf, no_jumps s = true -> ctx_ok il idf s = true.
Proof. exact no_jumps_ctx_ok. Qed.
Print Assumptions C02_side_condition_only_about_exits.

(* every program TEXT: what the parser returns always satisfies the side condition, except
   for an early exit written in a while condition (the recorded defect class, `wconds`) *)
Theorem C02_programs : forall src l,
  parse_source src = Ok l -> forallb wconds l = true -> py_wf (shape_program l) = true.
Proof.
  exact (fun src l H W => program_py_wf l (parsed_ctx_ok (Lexer.tokenise src) l H W)).
Qed.
Print Assumptions C02_programs.

(* premises are satisfiable and the known bad position is really excluded:
   3(n2=[X|x]) and (⟨X⟩) are fine, {X|1} is not *)
Example C02_nonvacuous :
  (exists l, parse_source [51;40;110;50;61;91;88;124;120;93;41] = Ok l
             /\ forallb (ctx_ok false false) l = true /\ py_wf (shape_program l) = true)
  /\ ctx_ok_source [40;10216;88;10217;41] = Some true
  /\ ctx_ok_source [123;88;124;49;125] = Some false
  /\ (exists sh, shape_source [123;88;124;49;125] = Some sh /\ py_wf sh = false).
Proof.
  split; [eexists; split; [vm_compute; reflexivity|split; vm_compute; reflexivity]|].
  split; [vm_compute; reflexivity|]. split; [vm_compute; reflexivity|].
  eexists; split; vm_compute; reflexivity.
Qed.
Print Assumptions C02_nonvacuous.

(* ---- TEXT and SHAPE connected inside Coq (Model/Layout.v: an executable reading of Python's
   indentation-based block structure) ------------------------------------------------------------- *)

(* for EVERY element key and modifier character (also the ones outside the tables, `pass`):
   laying out the template text that the transpiler indents gives exactly the block skeleton
   that the translator read from the template with Python's `ast` *)
Theorem C02_layout_templates :
  (forall k, layout (element_text k) = Some (elem_shape k)) /\
  (forall m, layout (modifier_text m) = Some (modif_shape m)).
Proof. exact layout_templates. Qed.
Print Assumptions C02_layout_templates.

(* the block parser never runs out of the fuel `layout` gives it: None means "rejected" *)
Theorem C02_layout_total : forall text, layout_res text <> LayFuel.
Proof. exact layout_never_out_of_fuel. Qed.
Print Assumptions C02_layout_total.

(* TEXT = SHAPE for every structure (all constructors, unbounded nesting), every indentation,
   every state of the id counters and ANY dictionary function: the text `tr` emits, read by
   Layout at column 4*indent, is `shape s`.  Side conditions on the tree: token payloads are
   what the lexer delivers for every source (`tree_ok` with the lenient `tok_ok false`: variable
   names are identifier characters, numbers are number characters; string contents, and what
   the dictionary makes of them, are arbitrary) and no `if` with zero branches (the parser
   never builds one, ParseInvariants.parse_ne) *)
Theorem C02_layout_tr : forall undict s indent c text c',
  tree_ok (QT undict) s -> ifs_nonempty s = true ->
  tr undict s indent c = TOk (text, c') -> layout_at (4 * indent) text = Some (PyShape.shape s).
Proof. exact layout_tr. Qed.
Print Assumptions C02_layout_tr.

(* the same for whole programs *)
Theorem C02_layout : forall undict l text,
  Forall (tree_ok (QT undict)) l -> forallb ifs_nonempty l = true ->
  transpile_ast undict l = TOk text -> layout text = Some (shape_program l).
Proof. exact layout_program. Qed.
Print Assumptions C02_layout.

(* every tree the parser returns satisfies the token side condition: any source, any dictionary *)
Theorem C02_parsed_tree_ok : forall undict src l, parse_source src = Ok l -> Forall (tree_ok (QT undict)) l.
Proof. exact parsed_tree_ok. Qed.
Print Assumptions C02_parsed_tree_ok.

(* end to end, for ALL program texts and ANY dictionary function: what the transpiler emits is
   accepted by Coq's reading of Python's block structure and context conditions.  The only
   hypothesis beyond "it parses and transpiles" is `wconds`, which excludes the recorded defect
   class (early exit in a while condition; C02_nonvacuous / C02_layout_examples show it is really
   rejected).  An earlier form needed "no carriage return in the source / from the dictionary": a raw
   CR in a string was an unterminated literal for CPython and for Layout -- the defect this theorem
   exposed; the transpiler now escapes it (/repo 54dfdca) and the hypotheses are gone.  A CR written
   directly after a backslash is passed through as a pair: a line continuation inside the literal
   for CPython, an escape pair for Layout (C02_layout_examples, last part) *)
Theorem C02_text_accepted : forall undict src l text,
  parse_source src = Ok l -> forallb wconds l = true ->
  transpile_ast undict l = TOk text -> accepts text = true.
Proof. exact text_accepted. Qed.
Print Assumptions C02_text_accepted.

Theorem C02_text_accepted_nodict : forall src text,
  (exists l, parse_source src = Ok l /\ forallb wconds l = true) ->
  transpile_nodict src = OText text -> accepts text = true.
Proof. exact text_accepted_nodict. Qed.
Print Assumptions C02_text_accepted_nodict.

(* non-vacuity: a program with a for loop, a three-branch if, a string spanning two physical
   lines, a lambda, nested list literals, modifiers, a function definition and call, a while loop
   satisfies every premise and is accepted; {X|1} is rejected; a string holding a carriage return is
   accepted (the transpiler escapes it); 3(`a\<CR>b`) -- backslash + CR inside a loop -- is accepted,
   and so is the text the implementation emits for it (textwrap.indent puts the indentation after
   the CR, inside the literal, where Model/Transpile.v does not split: the one place where the text
   model is knowingly inexact); a raw CR inside a literal is rejected *)
Theorem C02_layout_examples :
  (exists l text,
     parse_source demo_layout_src = Ok l /\ forallb wconds l = true /\ mem 13 demo_layout_src = false /\
     transpile_ast (fun s => s) l = TOk text /\ layout text = Some (shape_program l) /\ accepts text = true)
  /\ accepts_source [123;88;124;49;125] = Some false
  /\ (exists l text, parse_source [96;13;96] = Ok l /\ forallb wconds l = true /\
                     transpile_ast (fun s => s) l = TOk text /\ accepts text = true)
  /\ ((exists l text, parse_source [51;40;96;97;92;13;98;96;41] = Ok l /\ transpile_ast (fun s => s) l = TOk text /\
                       mem 13 text = true /\ accepts text = true)
      /\ accepts (L "if x:" ++ [nl] ++ L "    stack.append(""a\" ++ [13] ++ L "    b"")" ++ [nl]) = true)
  /\ accepts (L "stack.append(""a" ++ [13] ++ L "b"")" ++ [nl]) = false.
Proof.
  exact (conj layout_nonvacuous (conj layout_rejects_known_bad (conj layout_cr_escaped
           (conj layout_backslash_cr layout_raw_cr_rejected)))).
Qed.
Print Assumptions C02_layout_examples.
