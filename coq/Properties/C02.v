(* Property C02 — every well-formed program transpiles to Python that compiles.
   Only statements, each closed by `exact`, each followed by Print Assumptions. *)
From Coq Require Import List NArith ZArith Bool.
From Vy Require Import Model.Base Model.Lexer Model.Parser Model.Transpile Model.PyTree Model.PyShape
  Gen.Elements Gen.TemplateShapes Proofs.ParserFacts Proofs.C02Proofs Proofs.ParseInvariants.
Import ListNotations.

(* every element and modifier template of the regenerated tables is, on its own, a
   non-empty sequence of statements Python accepts in any position: it parses (no NBad),
   its suites are non-empty, and it contains no break / continue / return that would need
   an enclosing loop or def *)
Theorem C02_templates :
  forallb (fun e => tmpl_good (snd e)) elem_shapes = true
  /\ forallb (fun e => tmpl_good (snd e)) modif_shapes = true.
Proof. exact templates_good. Qed.
Print Assumptions C02_templates.

(* the code emitted for ANY program tree (every structure kind, modifier and nesting depth)
   satisfies Python's context conditions, provided early exits stand where ctx_ok allows *)
Theorem C02_context_conditions : forall l,
  forallb (ctx_ok false false) l = true -> py_wf (shape_program l) = true.
Proof. exact program_py_wf. Qed.
Print Assumptions C02_context_conditions.

(* in particular every program without X / x *)
Theorem C02_without_early_exits : forall l,
  forallb no_jumps l = true -> py_wf (shape_program l) = true.
Proof. exact program_without_jumps_py_wf. Qed.
Print Assumptions C02_without_early_exits.

(* the side condition is exactly about where break/recurse stand: in a loop body through
   ifs, or in a lambda through ifs and lists *)
Theorem C02_side_condition_only_about_exits : forall s il idf, no_jumps s = true -> ctx_ok il idf s = true.
Proof. exact no_jumps_ctx_ok. Qed.
Print Assumptions C02_side_condition_only_about_exits.

(* every program TEXT: what the parser returns always satisfies the side condition, except
   for an early exit written in a while condition (the recorded defect class, `wconds`) *)
Theorem C02_programs : forall src l,
  parse_source src = Ok l -> forallb wconds l = true -> py_wf (shape_program l) = true.
Proof.
  exact (fun src l H W => program_py_wf l (parsed_ctx_ok (Lexer.tokenise src) l H W)).
Qed.
Print Assumptions C02_programs.

(* premises are satisfiable and the known bad position is really excluded:
   3(n2=[X|x]) and (⟨X⟩) are fine, {X|1} is not *)
Example C02_nonvacuous :
  (exists l, parse_source [51;40;110;50;61;91;88;124;120;93;41] = Ok l
             /\ forallb (ctx_ok false false) l = true /\ py_wf (shape_program l) = true)
  /\ ctx_ok_source [40;10216;88;10217;41] = Some true
  /\ ctx_ok_source [123;88;124;49;125] = Some false
  /\ (exists sh, shape_source [123;88;124;49;125] = Some sh /\ py_wf sh = false).
Proof.
  split; [eexists; split; [vm_compute; reflexivity|split; vm_compute; reflexivity]|].
  split; [vm_compute; reflexivity|]. split; [vm_compute; reflexivity|].
  eexists; split; vm_compute; reflexivity.
Qed.
Print Assumptions C02_nonvacuous.
