(* Property C08 — vectorising elements act element-wise.
   Only statements, each closed by `exact`, each followed by Print Assumptions. *)
From Coq Require Import List NArith ZArith Bool Arith.
From Vy Require Import Model.Base Model.Vectorise Proofs.VectoriseProofs Proofs.C08Table Gen.Dispatch.
Import ListNotations.

(* a monadic element whose dispatch skeleton passes vec_complete maps itself over a
   list, eager or lazy, whatever it does to scalars (base) and whatever its value
   tests answer (orc) *)
Theorem C08_sound1 : forall d orc base,
  vec_complete 1 d = true -> elementwise1 (elem1 d default_flags orc base).
Proof. exact sound1. Qed.
Print Assumptions C08_sound1.

(* dyadic: list/scalar and scalar/list pair the scalar with every item, list/list
   pairs position by position, the shorter list continued with 0 *)
Theorem C08_sound2 : forall d orc base,
  vec_complete 2 d = true -> elementwise2 (elem2 d default_flags orc base).
Proof. exact sound2. Qed.
Print Assumptions C08_sound2.

(* the same on every argument-type combination outside a set of exceptions *)
Theorem C08_sound1_on : forall d orc base ex,
  vec_complete_ex ex 1 d = true ->
  elementwise1_on (fun ts => negb (ex ts)) (elem1 d default_flags orc base).
Proof. exact sound1_on. Qed.
Print Assumptions C08_sound1_on.

Theorem C08_sound2_on : forall d orc base ex,
  vec_complete_ex ex 2 d = true ->
  elementwise2_on (fun ts => negb (ex ts)) (elem2 d default_flags orc base).
Proof. exact sound2_on. Qed.
Print Assumptions C08_sound2_on.

(* recursively, for lists nested to any depth: the scalar function at the leaves *)
Theorem C08_nested1 : forall f, elementwise1 f -> forall a, f a = deep1 f a.
Proof. exact deep1_of_elementwise. Qed.
Print Assumptions C08_nested1.

Theorem C08_nested2 : forall f, elementwise2 f ->
  forall n a b, data a = true -> data b = true ->
    (Nat.max (depth a) (depth b) < n)%nat -> f a b = deep2 f n a b.
Proof. exact deep2_of_elementwise. Qed.
Print Assumptions C08_nested2.

(* every entry of the curated table regenerated from elements.py / elements.yaml:
   on every combination of argument types with a list among them it reaches only
   `vectorise(self, args)`, unless elements.yaml documents an overload for that
   combination and the element implements one *)
Theorem C08_table : forall e, In e curated -> entry_ok doc_overloads e = true.
Proof. exact every_curated_ok. Qed.
Print Assumptions C08_table.

Theorem C08_table_nonvacuous : curated <> [] /\ translator_ok = true.
Proof. exact curated_nonempty. Qed.
Print Assumptions C08_table_nonvacuous.

(* the table still holds (at least) the 88 elements the property is stated for *)
Theorem C08_table_size : (88 <= length curated)%nat.
Proof. exact curated_size. Qed.
Print Assumptions C08_table_size.

(* hence every curated element is element-wise on every combination that is not a
   documented overload *)
Theorem C08_curated1 : forall e, In e curated -> de_arity e = 1%nat ->
  forall orc base, elementwise1_on (strict e) (elem1 (de_tree e) default_flags orc base).
Proof. exact curated_monadic. Qed.
Print Assumptions C08_curated1.

Theorem C08_curated2 : forall e, In e curated -> de_arity e = 2%nat ->
  forall orc base, elementwise2_on (strict e) (elem2 (de_tree e) default_flags orc base).
Proof. exact curated_dyadic. Qed.
Print Assumptions C08_curated2.

(* on a combination where the skeleton never reaches the fallback the element returns
   what its own overload returns (or fails): vec_complete is not merely sufficient *)
Theorem C08_refuted1 : forall d orc base a,
  is_list a = true -> shape_never_vec d [tag_of a] = true ->
  elem1 d default_flags orc base a = base a \/ elem1 d default_flags orc base a = VErr.
Proof. exact never_vec1. Qed.
Print Assumptions C08_refuted1.

Theorem C08_refuted2 : forall d orc base a b,
  is_list a || is_list b = true -> shape_never_vec d [tag_of a; tag_of b] = true ->
  elem2 d default_flags orc base a b = base a b \/ elem2 d default_flags orc base a b = VErr.
Proof. exact never_vec2. Qed.
Print Assumptions C08_refuted2.
