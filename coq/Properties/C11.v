(* Property C11 — input is a cyclic stream shared by explicit and implicit reads.
   Only statements, each closed by `exact`, each followed by Print Assumptions.

   Vocabulary (Model/Input.v): `run ins h` executes the history h (Explicit = the `?`
   element, Implicit k = pop of k missing items, Enter args / Exit = the scope push / pop
   of the lambda and function templates) from execute_vyxal's initial context with program
   inputs ins, by fold_left; every event records the depth BEFORE the operation (computed
   from the history alone, 1 = top level) and the values the operation read.
   `top_vals` = values of all Explicit events and of Implicit events at depth 1, in order.
   `scope_vals d` = values of Implicit events at depth d, in order.
   `well_scoped h` = h never executes Exit at depth 1.  stdin is empty (assumption). *)
From Coq Require Import List ZArith Bool Arith.
From Vy Require Import Model.Input Proofs.InputProofs.
Import ListNotations.

(* "well scoped", spelled out: every Exit of the history happens at a depth above 1 *)
Theorem C11_well_scoped_meaning : forall b h d,
  scopedb b d h = true <-> (forall p q, h = p ++ Exit :: q -> b < depth_from d p).
Proof. exact scopedb_iff. Qed.
Print Assumptions C11_well_scoped_meaning.

(* every operation delivers exactly the values it asks for, for every history *)
Theorem C11_reads_counted : forall ins h,
  map ev_op (r_events (run ins h)) = h
  /\ Forall (fun e => length (ev_vals e) = reads_of (ev_op e)) (r_events (run ins h)).
Proof. exact reads_counted. Qed.
Print Assumptions C11_reads_counted.

(* the depth of the history is the length of ctx.inputs, and `?` always resets use_top_input *)
Theorem C11_depth : forall ins h, well_scoped h ->
  length (scopes (r_state (run ins h))) = depth_from 1 h
  /\ use_top (r_state (run ins h)) = false
  /\ 1 <= depth_from 1 h.
Proof. exact state_shape. Qed.
Print Assumptions C11_depth.

(* one shared cursor: the j-th value served from the program's inputs -- by an explicit read
   at any depth or an implicit read at top level -- is input number j mod the number of inputs *)
Theorem C11_top : forall ins h, ins <> [] -> well_scoped h ->
  forall j, j < length (top_vals (r_events (run ins h))) ->
    nth j (top_vals (r_events (run ins h))) 0%Z = nth (j mod length ins) ins 0%Z.
Proof. exact top_nonempty. Qed.
Print Assumptions C11_top.

(* with no inputs every such read yields 0 *)
Theorem C11_empty : forall h, well_scoped h ->
  Forall (fun v => v = 0%Z) (top_vals (r_events (run [] h))).
Proof. exact top_empty. Qed.
Print Assumptions C11_empty.

(* the top-level cursor counts exactly the reads served from the program's inputs: nothing
   else moves it (in particular no implicit read inside a call) *)
Theorem C11_cursor : forall ins h, ins <> [] -> well_scoped h ->
  first_scope (scopes (r_state (run ins h))) = (ins, length (top_vals (r_events (run ins h)))).
Proof. exact top_cursor. Qed.
Print Assumptions C11_cursor.

Theorem C11_cursor_empty : forall h, well_scoped h ->
  first_scope (scopes (r_state (run [] h))) = ([], 0).
Proof. exact top_cursor_empty. Qed.
Print Assumptions C11_cursor_empty.

(* a history splits at any point: events of h1 ++ h2 are those of h1 followed by those of h2
   run from the state and depth h1 ended in (this is how the next two theorems read) *)
Theorem C11_run_split : forall st d h1 h2,
  let A1 := run_from st d h1 in
  let A2 := run_from (r_state A1) (r_depth A1) h2 in
  run_from st d (h1 ++ h2) = mkAcc (r_state A2) (r_depth A2) (r_events A1 ++ r_events A2).
Proof. exact run_split. Qed.
Print Assumptions C11_run_split.

Theorem C11_enter_depth : forall ins h1 a,
  r_depth (run ins (h1 ++ [Enter a])) = S (depth_from 1 h1).
Proof. exact enter_depth. Qed.
Print Assumptions C11_enter_depth.

(* inside a call entered with arguments a <> [] (anywhere in a well-scoped history), as long
   as the call is not left (h2 has no Exit at the call's depth d), the j-th implicit read at
   depth d is element j mod |a| of the scope's list as pushed, rev a *)
Theorem C11_inner : forall ins h1 a h2, a <> [] -> well_scoped h1 ->
  let A1 := run ins (h1 ++ [Enter a]) in
  let d := r_depth A1 in
  scopedb d d h2 = true ->
  let vs := scope_vals d (r_events (run_from (r_state A1) d h2)) in
  forall j, j < length vs -> nth j vs 0%Z = nth (j mod length a) (rev a) 0%Z.
Proof. exact inner_nonempty. Qed.
Print Assumptions C11_inner.

(* a call with NO arguments (depth > 1, so len(ctx.inputs) != 1): implicit reads yield 0;
   they do not fall back to the program's inputs *)
Theorem C11_inner_empty : forall ins h1 h2, well_scoped h1 ->
  let A1 := run ins (h1 ++ [Enter []]) in
  let d := r_depth A1 in
  scopedb d d h2 = true ->
  Forall (fun v => v = 0%Z) (scope_vals d (r_events (run_from (r_state A1) d h2))).
Proof. exact inner_empty. Qed.
Print Assumptions C11_inner_empty.

(* an implicit read below top level leaves the program's scope (values and cursor) untouched *)
Theorem C11_inner_keeps_top : forall ins h k, well_scoped h -> 1 < depth_from 1 h ->
  first_scope (scopes (fst (step (r_state (run ins h)) (Implicit k))))
  = first_scope (scopes (r_state (run ins h))).
Proof. exact inner_keeps_top. Qed.
Print Assumptions C11_inner_keeps_top.

(* pop of k items from a stack holding j <= k items: the j items, then k - j implicit reads *)
Theorem C11_pop_short : forall stack st k, length stack <= k ->
  pop_n st stack k =
  (fst (fst (pop_n st [] (k - length stack))), [],
   stack ++ snd (pop_n st [] (k - length stack))).
Proof. exact pop_short. Qed.
Print Assumptions C11_pop_short.

(* ---- non-vacuity: a well-scoped history with reads at depths 1, 2 and 3 --------------- *)
Example C11_ex_well_scoped : well_scoped ex_h.
Proof. exact ex_well_scoped. Qed.
Print Assumptions C11_ex_well_scoped.

Example C11_ex_top : top_vals (r_events (run ex_ins ex_h)) = [3; 4; 5; 3; 4; 5]%Z.
Proof. exact ex_top. Qed.
Print Assumptions C11_ex_top.

Example C11_ex_all : map ev_vals (r_events (run ex_ins ex_h))
  = [[3]; [4; 5]; []; [8; 7; 8]; [3]; []; [0; 0]; [4]; []; [7]; []; [5]]%Z.
Proof. exact ex_all. Qed.
Print Assumptions C11_ex_all.

Example C11_ex_empty : top_vals (r_events (run [] ex_h)) = [0; 0; 0; 0; 0; 0]%Z.
Proof. exact ex_empty. Qed.
Print Assumptions C11_ex_empty.

Example C11_ex_inner :
  let A1 := run ex_ins [Explicit; Implicit 2; Enter [7; 8]%Z] in
  let h2 := [Implicit 3; Explicit; Enter []; Implicit 2; Explicit; Exit; Implicit 1] in
  r_depth A1 = 2 /\ scopedb 2 2 h2 = true
  /\ scope_vals 2 (r_events (run_from (r_state A1) 2 h2)) = [8; 7; 8; 7]%Z.
Proof. exact ex_inner. Qed.
Print Assumptions C11_ex_inner.

Example C11_ex_inner_empty :
  let A1 := run ex_ins [Enter [9]%Z; Enter []] in
  let h2 := [Implicit 2; Explicit; Implicit 1] in
  r_depth A1 = 3 /\ scopedb 3 3 h2 = true
  /\ map ev_vals (r_events (run_from (r_state A1) 3 h2)) = [[0; 0]; [3]; [0]]%Z.
Proof. exact ex_inner_empty. Qed.
Print Assumptions C11_ex_inner_empty.

Example C11_ex_cursor : first_scope (scopes (r_state (run ex_ins ex_h))) = (ex_ins, 6).
Proof. exact ex_cursor. Qed.
Print Assumptions C11_ex_cursor.

Example C11_ex_pop_short :
  pop_n (init ex_ins) [10; 11]%Z 4 = (mkState [(ex_ins, 2)] false, [], [10; 11; 3; 4]%Z).
Proof. exact ex_pop_short. Qed.
Print Assumptions C11_ex_pop_short.

(* the hypothesis is not decorative: a history that pops the program's own scope is excluded *)
Example C11_ex_ill_scoped : well_scoped [Exit; Explicit] -> False.
Proof. exact ex_ill_scoped. Qed.
Print Assumptions C11_ex_ill_scoped.

(* ---- the same property on the state of the C01 evaluators (Model/Values.v) ----------------------------
   Machine.v and RefSem.v share the input functions get_top / get_input / pop1 of Model/Values.v (values of
   every kind, the scopes as `top_in` + `inner`).  A read history at one nesting level is a list of booleans
   (true = the element `?`, false = a pop from the empty stack).  These statements say for that model what
   C11_top / C11_empty / C11_inner say for Model/Input.v, so the two hand-written models of
   helpers.get_input / helpers.pop cannot drift apart unnoticed. *)
From Vy Require Model.Values Proofs.C11Machine.

Theorem C11_core_top : forall h s ins c,
  Values.inner s = [] -> Values.stk s = [] -> Values.top_in s = (ins, c) -> ins <> [] ->
  let (s', vs) := C11Machine.reads h s in
  vs = C11Machine.cyc ins c (length h) /\ Values.inner s' = [] /\ Values.stk s' = [] /\
  Values.top_in s' = (ins, c + length h).
Proof. exact C11Machine.top_reads. Qed.
Print Assumptions C11_core_top.

Theorem C11_core_empty : forall h s c,
  Values.inner s = [] -> Values.stk s = [] -> Values.top_in s = ([], c) ->
  let (s', vs) := C11Machine.reads h s in vs = repeat (Values.VInt 0) (length h) /\ s' = s.
Proof. exact C11Machine.top_reads_empty. Qed.
Print Assumptions C11_core_empty.

Theorem C11_core_inner : forall h s args ca rest ins ci,
  Values.inner s = (args, ca) :: rest -> Values.stk s = [] -> Values.top_in s = (ins, ci) -> args <> [] -> ins <> [] ->
  let (s', vs) := C11Machine.reads h s in
  vs = C11Machine.expected h args ca ins ci /\
  Values.inner s' = (args, ca + C11Machine.count_b false h) :: rest /\ Values.stk s' = [] /\
  Values.top_in s' = (ins, ci + C11Machine.count_b true h).
Proof. exact C11Machine.inner_reads. Qed.
Print Assumptions C11_core_inner.

Example C11_core_example :
  snd (C11Machine.reads [false; true; false; false; true]
         (Values.mkSt [] [] ([Values.VInt 7; Values.VInt 8; Values.VInt 9], 0) [] [] 0 (Values.VInt 0) [] [] [] None [] false))
  = [Values.VInt 7; Values.VInt 8; Values.VInt 9; Values.VInt 7; Values.VInt 8].
Proof. exact C11Machine.top_reads_example. Qed.
Print Assumptions C11_core_example.
