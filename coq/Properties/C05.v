(* Property C05 — numeric literals denote exactly their decimal value.
   Only statements, each closed by `exact`, each followed by Print Assumptions.

   Vocabulary (Model/Literals.v): `int_lit d` = d is a non-empty ASCII digit string without
   a leading zero, or "0"; `all_digits f`; `ends_integer rest` = rest is empty or starts
   with a character other than a digit, "." and "°"; `ends_decimal rest` = empty or starts
   with a character other than a digit and "°" (a further "." also ends the literal);
   `ends_zero rest` = empty or starts with anything but "." and "°".  46 = ".", 48 = "0". *)
From Coq Require Import List NArith ZArith QArith Bool String Ascii.
From Vy Require Import Model.Base Model.Lexer Model.Parser Model.Transpile Model.Literals Proofs.C05Proofs.
Import ListNotations.
Open Scope N_scope.

(* ---- C05_split: the lexer's splitting rules, for all lengths ------------------------------- *)
Theorem C05_split_integer : forall d rest,
  int_lit d = true -> ends_integer rest = true ->
  tokenise (d ++ rest) = Tok KNumber d :: tokenise rest.
Proof. exact split_integer. Qed.
Print Assumptions C05_split_integer.

Theorem C05_split_decimal : forall d f rest,
  int_lit d = true -> all_digits f = true -> ends_decimal rest = true ->
  tokenise (d ++ 46 :: f ++ rest) = Tok KNumber (d ++ 46 :: f) :: tokenise rest.
Proof. exact split_decimal. Qed.
Print Assumptions C05_split_decimal.

(* a leading 0 stands alone, whatever follows except "." and "°" -- in particular a digit *)
Theorem C05_split_leading_zero : forall rest,
  ends_zero rest = true -> tokenise (48 :: rest) = Tok KNumber [48] :: tokenise rest.
Proof. exact split_leading_zero. Qed.
Print Assumptions C05_split_leading_zero.

Theorem C05_split_zero_then_digit : forall c r,
  is_digit c = true -> tokenise (48 :: c :: r) = Tok KNumber [48] :: tokenise (c :: r).
Proof. exact split_zero_then_digit. Qed.
Print Assumptions C05_split_zero_then_digit.

(* a second point starts a new number *)
Theorem C05_split_second_point : forall d f rest,
  int_lit d = true -> all_digits f = true ->
  tokenise (d ++ 46 :: f ++ 46 :: rest) = Tok KNumber (d ++ 46 :: f) :: tokenise (46 :: rest).
Proof. exact split_second_point. Qed.
Print Assumptions C05_split_second_point.

(* a literal that begins with its point (.5) is one token as well *)
Theorem C05_split_leading_point : forall f rest,
  all_digits f = true -> ends_decimal rest = true ->
  tokenise (46 :: f ++ rest) = Tok KNumber (46 :: f) :: tokenise rest.
Proof. exact split_leading_point. Qed.
Print Assumptions C05_split_leading_point.

(* run alone, a literal is exactly one NUMBER token carrying its text *)
Theorem C05_alone_integer : forall d, int_lit d = true -> tokenise d = [Tok KNumber d].
Proof. exact literal_alone_integer. Qed.
Print Assumptions C05_alone_integer.

Theorem C05_alone_decimal : forall d f, int_lit d = true -> all_digits f = true ->
  tokenise (d ++ 46 :: f) = [Tok KNumber (d ++ 46 :: f)].
Proof. exact literal_alone_decimal. Qed.
Print Assumptions C05_alone_decimal.

(* ---- C05_text: the literal's text reaches sympy unchanged ----------------------------------- *)
Theorem C05_text_integer : forall d, int_lit d = true ->
  number_text d = L "stack.append(sympy.nsimplify(""" ++ d ++ L """))".
Proof. exact number_text_integer. Qed.
Print Assumptions C05_text_integer.

Theorem C05_text_decimal : forall d f, int_lit d = true -> all_digits f = true ->
  number_text (d ++ 46 :: f) = L "stack.append(sympy.Rational(""" ++ (d ++ 46 :: f) ++ L """))".
Proof. exact number_text_decimal. Qed.
Print Assumptions C05_text_decimal.

(* ---- C05_value: given exact conversion (the two named hypotheses are the trusted base about
   sympy; the oracle of props/C05.py measures them) the pushed value is digits / 10^k --------- *)
Theorem C05_value_integer : forall (sym_rational sym_nsimplify : str -> option Q),
  (forall d, int_lit d = true -> sym_nsimplify d = Some (inject_Z (Z_of_digits d))) ->
  forall d, int_lit d = true ->
  literal_value sym_rational sym_nsimplify d = Some (inject_Z (Z_of_digits d)).
Proof. exact value_integer. Qed.
Print Assumptions C05_value_integer.

Theorem C05_value_decimal : forall (sym_rational sym_nsimplify : str -> option Q),
  (forall s, sym_rational s = dec_value s) ->
  forall d f, int_lit d = true -> all_digits f = true ->
  exists q, literal_value sym_rational sym_nsimplify (d ++ 46 :: f) = Some q
    /\ q = Z_of_digits (d ++ f) # pow10 (List.length f)
    /\ q == inject_Z (Z_of_digits (d ++ f)) / inject_Z (10 ^ Z.of_nat (List.length f)).
Proof. exact value_decimal. Qed.
Print Assumptions C05_value_decimal.

(* digits(d ++ f) = digits(d) * 10^|f| + digits(f): the value is d + f / 10^|f| *)
Theorem C05_digits_parts : forall d f,
  Z_of_digits (d ++ f) = (Z_of_digits d * 10 ^ Z.of_nat (List.length f) + Z_of_digits f)%Z.
Proof. exact digits_parts. Qed.
Print Assumptions C05_digits_parts.

(* ---- non-vacuity ------------------------------------------------------------------------------- *)
Example C05_split_nonvacuous :
  int_lit [49; 49; 54; 52] = true /\ int_lit [48] = true /\ int_lit [48; 55] = false
  /\ tokenise [49; 50; 48; 46; 53; 48; 32; 97] = [Tok KNumber [49; 50; 48; 46; 53; 48]; Tok KGeneral [32]; Tok KGeneral [97]]
  /\ tokenise [48; 48; 55] = [Tok KNumber [48]; Tok KNumber [48]; Tok KNumber [55]]
  /\ tokenise [49; 46; 50; 46; 51] = [Tok KNumber [49; 46; 50]; Tok KNumber [46; 51]]
  /\ tokenise [48; 46; 53] = [Tok KNumber [48; 46; 53]].
Proof. exact split_examples. Qed.
Print Assumptions C05_split_nonvacuous.

Example C05_value_nonvacuous :
  let nsimp := fun d => if int_lit d then Some (inject_Z (Z_of_digits d)) else None in
  (forall d, int_lit d = true -> nsimp d = Some (inject_Z (Z_of_digits d)))
  /\ literal_value dec_value nsimp [49; 50; 48; 46; 53; 48] = Some (12050 # 100)
  /\ (12050 # 100 == 241 # 2)
  /\ literal_value dec_value nsimp [49; 49; 54; 52] = Some (inject_Z 1164).
Proof. exact value_example. Qed.
Print Assumptions C05_value_nonvacuous.
