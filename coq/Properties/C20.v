(* Property C20 — every element is typeable in one byte per character and reachable.
   Only statements, each closed by `exact`, each followed by Print Assumptions. *)
From Coq Require Import List NArith ZArith Bool.
From Vy Require Import Model.Base Model.Lexer Model.Parser Model.Encoding Proofs.C20Proofs
  Gen.Codepage Gen.ParserConsts Gen.Elements Gen.Yaml Gen.Known.
Import ListNotations.
Open Scope N_scope.

(* the code page has exactly 256 pairwise distinct characters *)
Theorem C20_codepage_256 : length codepage = 256%nat /\ NoDup codepage.
Proof. exact (conj codepage_length codepage_nodup). Qed.
Print Assumptions C20_codepage_256.

(* bytes -> text -> bytes is the identity, for byte strings of every length *)
Theorem C20_bytes_roundtrip : forall bs, Forall (fun b => b < 256) bs ->
  exists s, to_utf8 bs = Some s /\ to_vyxal s = Some bs.
Proof. exact bytes_text_bytes. Qed.
Print Assumptions C20_bytes_roundtrip.

(* text -> bytes -> text is the identity on code-page text, every byte below 256 *)
Theorem C20_text_roundtrip : forall s, Forall (fun c => In c codepage) s ->
  exists bs, to_vyxal s = Some bs /\ to_utf8 bs = Some s /\ Forall (fun b => b < 256) bs.
Proof. exact text_bytes_text. Qed.
Print Assumptions C20_text_roundtrip.

(* every key of the regenerated element table: code-page characters only, lexed as
   exactly one GENERAL token, not shadowed by syntax, not defined twice, arity equal
   to every documented arity -- except the keys listed in known_findings.json *)
Theorem C20_elements_partial : forall e, In e elements -> key_ok e = true.
Proof. exact every_element_ok. Qed.
Print Assumptions C20_elements_partial.

Theorem C20_syntax_chars : forall c,
  In c (openers ++ closers ++ all_modifiers ++ [break_character; recurse_character]) ->
  mem c codepage = true /\ tokenise [c] = [Tok KGeneral [c]].
Proof. exact syntax_chars_general. Qed.
Print Assumptions C20_syntax_chars.

(* every documented entry names a table element, a syntax character, or a modifier
   that both parser and modifier table know -- except the known missing ones *)
Theorem C20_documented_partial : forall d, In d documented -> doc_ok d = true.
Proof. exact every_doc_ok. Qed.
Print Assumptions C20_documented_partial.

(* in particular every table key is scanned as exactly one token, itself *)
Theorem C20_elements_one_token : forall e, In e elements -> tokenise (e_key e) = [Tok KGeneral (e_key e)].
Proof. exact element_key_general. Qed.
Print Assumptions C20_elements_one_token.
