(* Property C19 -- online mode contains the program: no host output, no evaluation of
   user text.  Only statements, each closed by `exact`, each followed by Print Assumptions.
   Strength: PARTIAL -- the decision logic (effect-trace models) and the guard of every
   sink of the regenerated table are proved; host-level effects are observed by props/C19.py. *)
From Coq Require Import List NArith Bool.
From Vy Require Import Model.Base Model.Online Gen.Sinks Proofs.OnlineProofs.
Import ListNotations.

(* the syntactic guard check is sound for the formulas the translator emits: a guarded
   path condition is not true in online mode, whatever the opaque atoms are *)
Theorem C19_guard_sound : forall f, guard_excludes_online f = true ->
  forall atoms, eval_formula true atoms f <> Some true.
Proof. exact guard_sound. Qed.
Print Assumptions C19_guard_sound.

(* ... and false under every two-valued completion of the parts the translator could not read *)
Theorem C19_guard_sound_total : forall f, guard_excludes_online f = true ->
  forall atoms unk, eval_total true atoms unk [] f = false.
Proof. exact guard_sound_total. Qed.
Print Assumptions C19_guard_sound_total.

(* the sweep of the regenerated sink table: every sink that prints to the host, reads from
   it, or compiles / evaluates / executes text, and is not one of the entries listed in
   Model/Online.v (legit_unguarded, noted_out_of_scope), is guarded by `not online` *)
Theorem C19_sinks :
  forallb (fun s => negb (in_scope s) || guard_excludes_online (s_cond s))
          (filter (fun s => negb (listed s)) sinks) = true.
Proof. exact sinks_swept. Qed.
Print Assumptions C19_sinks.

Theorem C19_sinks_unreachable_online : forall s, In s sinks -> in_scope s = true -> listed s = false ->
  forall atoms, eval_formula true atoms (s_cond s) <> Some true.
Proof. exact sinks_sound. Qed.
Print Assumptions C19_sinks_unreachable_online.

(* the translator understood the sources; no listed entry covers more call sites than it
   names; the mode flag is only ever initialised, copied, or set from execute_vyxal's parameter *)
Theorem C19_sink_table_obligations :
  sinks_translator_ok = true /\ exclusions_tight sinks = true /\ forallb write_ok online_writes = true.
Proof. exact (conj translator_ok (conj sinks_exclusions_tight online_flag_writes)). Qed.
Print Assumptions C19_sink_table_obligations.

(* ctx forwarding, over the regenerated table of every call of a helper whose ctx parameter
   has a default (DEFAULT_CTX is an OFFLINE context): from a function that has a ctx in
   scope, a helper that can reach a mode decision always gets it explicitly -- except the
   call sites listed and justified in Model/Online.v (ctx_exclusions) *)
Theorem C19_ctx_forwarding : forall c, In c ctx_calls -> c_has_ctx c = true -> c_risky c = true ->
  ctx_listed c = false -> c_passes c = true.
Proof. exact ctx_forwarded. Qed.
Print Assumptions C19_ctx_forwarding.

Theorem C19_ctx_table_obligations :
  forallb ctx_ok ctx_calls = true /\ ctx_exclusions_tight ctx_calls = true.
Proof. exact (conj ctx_calls_swept ctx_exclusions_are_tight). Qed.
Print Assumptions C19_ctx_table_obligations.

(* the modelled functions, online: no host print, no eval / exec of user text in any trace
   of execute_vyxal (input parsing, body made of prints, E, dagger, E-dot, error capture,
   implicit output under its own try) *)
Theorem C19_model : forall m s, online m = true -> clean (execute_trace m s) = true.
Proof. exact execute_clean. Qed.
Print Assumptions C19_model.

(* every printed value yields OnlineOut: the online trace of vy_print / LazyList.output is
   the offline trace with each HostPrint replaced by OnlineOut, and it is never empty *)
Theorem C19_model_print : forall v,
  print_trace {| online := true |} v = map (fun _ => OnlineOut) (print_trace {| online := false |} v) /\
  Forall (fun e => e = HostPrint) (print_trace {| online := false |} v).
Proof. exact print_trace_online_offline. Qed.
Print Assumptions C19_model_print.

Theorem C19_model_print_nonempty : forall m v, print_trace m v <> [].
Proof. exact print_trace_nonempty. Qed.
Print Assumptions C19_model_print_nonempty.

(* inputs and E: literal evaluation only; the text is returned unchanged unless it is a literal *)
Theorem C19_model_eval : forall m t, online m = true ->
  vy_eval_trace m t = [LiteralEval] /\
  (vy_eval_result m t = RValue <-> is_literal t = true) /\
  (vy_eval_result m t = RUnchanged <-> is_literal t = false).
Proof. exact vy_eval_online. Qed.
Print Assumptions C19_model_eval.

(* ... and it never raises, in either mode: a text is a value or stays the string it is *)
Theorem C19_model_eval_total : forall m t, vy_eval_result m t <> RRaises.
Proof. exact vy_eval_total. Qed.
Print Assumptions C19_model_eval_total.

(* the call element on a string does nothing online; E-dot runs the text as Vyxal only *)
Theorem C19_model_call : forall m k, online m = true -> function_call_trace m k = [].
Proof. exact function_call_online. Qed.
Print Assumptions C19_model_call.

Theorem C19_model_vyexec : forall m k e, In e (vy_exec_trace m k) -> e = VyExec.
Proof. exact vy_exec_only_vyxal. Qed.
Print Assumptions C19_model_vyexec.

(* errors are reported in the error record instead of propagating: in online mode no trace
   of execute_vyxal contains Raise -- for every scenario (inputs, flags, body, transpile
   outcome, final value whose printing succeeds or raises) *)
Theorem C19_errors : forall m s, online m = true -> no_raise (execute_trace m s) = true.
Proof. exact execute_errors_recorded. Qed.
Print Assumptions C19_errors.

(* and a failing transpile, a raising body, or a raising flag post-processing / implicit
   output all end the trace with the error record followed by sys.exit *)
Theorem C19_errors_captured : forall m s, online m = true ->
  (sc_transpile_ok s = false
   \/ (exists b, sc_transpile_ok s = true /\ sc_run s = RunRaises b)
   \/ (exists b, sc_transpile_ok s = true /\ sc_run s = RunOk b /\ sc_implicit s = true /\ sc_final s = None)) ->
  exists pre, execute_trace m s = pre ++ [ErrRecord; Exit].
Proof. exact execute_capture_tail. Qed.
Print Assumptions C19_errors_captured.
