"""Emits coq/Gen/Known.v from /verif/known_findings.json: the exclusion lists the
`…_partial` theorems are stated under.  Only entries with status "known" and a
"coq" field contribute; every registered name is always defined (empty list when
nothing is excluded), so fixing a defect and deleting its entry needs no Coq edit."""
import json
import os

REGISTRY = {
    # name -> Coq type of the items ("str" = list N)
    "c20_known_dup": "str",
    "c20_known_shadowed": "str",
    "c20_known_arity": "str",
    "c20_known_missing": "str",
}


def cstr(s):
    if not s:
        return "([] : list N)"
    return "[" + "; ".join(str(ord(c)) for c in s) + "]%N"


def generate(root, outdir):
    with open(os.path.join(root, "known_findings.json"), encoding="utf-8") as f:
        findings = json.load(f)["findings"]
    lists = {k: [] for k in REGISTRY}
    for e in findings:
        if e.get("status") != "known" or "coq" not in e:
            continue
        for name, values in e["coq"].items():
            if name not in REGISTRY:
                raise ValueError(f"known_findings.json: unknown Coq list {name}")
            lists[name] += values
    s = "(* GENERATED from /verif/known_findings.json by tools/gen_known.py. Do not edit. *)\n"
    s += "From Coq Require Import List NArith.\nImport ListNotations.\nOpen Scope N_scope.\n"
    for name, ty in REGISTRY.items():
        vals = lists[name]
        body = "[" + ";\n   ".join(cstr(v) for v in vals) + "]" if vals else "[]"
        s += f"Definition {name} : list (list N) :=\n  {body}.\n"
    path = os.path.join(outdir, "Known.v")
    old = None
    try:
        with open(path, encoding="utf-8") as f:
            old = f.read()
    except FileNotFoundError:
        pass
    if old != s:
        with open(path, "w", encoding="utf-8") as f:
            f.write(s)
        return ["Known.v"]
    return []
