#!/bin/sh
# every quick (or $1 = thorough) check in turn on /repo; one summary line each
tier=${1:-quick}
cd /verif
for i in 01 02 03 04 05 06 07 08 09 10 11 12 13 14 15 16 17 18 19 20; do
  s=$(date +%s)
  ./check C$i --tier $tier </dev/null > /tmp/runall_C$i.log 2>&1
  rc=$?
  e=$(date +%s)
  echo "C$i rc=$rc $((e-s))s $(grep -c '^VIOLATION' /tmp/runall_C$i.log) violations $(grep -c '^KNOWN-FINDING' /tmp/runall_C$i.log) known | $(grep '^OK\|^VIOLATION' /tmp/runall_C$i.log | head -1 | cut -c1-160)"
done
python3-vt - <<'PY'
import json, glob, jsonschema
es = json.load(open('/root/.vp/EVIDENCE.schema.json'))
bad = 0
for f in sorted(glob.glob('/verif/evidence/C*.json')):
    try:
        jsonschema.validate(json.load(open(f)), es)
    except Exception as e:
        bad += 1
        print('EVIDENCE-INVALID', f, str(e)[:200])
jsonschema.validate(json.load(open('/verif/MANIFEST.json')), json.load(open('/root/.vp/MANIFEST.schema.json')))
print('evidence files invalid:', bad, '; manifest valid')
PY
