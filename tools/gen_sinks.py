#!/usr/bin/env python3
"""Translator for C19: every call site of a host-effect sink in /repo/vyxal/*.py with
its PATH CONDITION, emitted as Coq data in coq/Gen/Sinks.v.

Sinks: print / sys.stdout / sys.stderr (KPrint), exec (KExec), eval (KEval), builtin
compile (KCompile), input (KInput), exit / quit / sys.exit / os._exit (KExit),
urlopen / urllib.request.* (KUrl), open (KOpen), os.system / os.popen / subprocess.*
(KSystem), __import__ / importlib (KImport), and -- for the inventory in the evidence
file only -- the sympy text parsers parse_expr / sympify / make_expression (KSympy).

Per call site: file, enclosing function (dotted, `tpl <key>` for an element/modifier
template, `<str@line>` for code found inside any other string constant), line, kind,
the kind of its first argument, and the path condition: a boolean formula over the
atom `online` (ctx.online, and online_mode inside execute_vyxal when the function
contains `ctx.online = online_mode`), negation, conjunction, disjunction and opaque
atoms, computed from the enclosing if/elif/else chain, conditional expressions,
short-circuit and/or, while tests and assert.

Path conditions -- what is computed and why it is sound.  The formula attached to a sink
is IMPLIED by "control reaches the sink" (so: formula false when online => sink unreachable
when online).  It is a conjunction of facts each of which must hold on every path to the
sink; conjuncts are only ever dropped, never invented.
 1. Enclosing tests: inside the body / else of `if C`, `while C`, `A if C else B`, after
    `C and ...` / `C or ...`, the message of `assert C`: the usual branch condition.
 2. Early exits: after a statement `if C: <block that cannot fall through>` (its last
    statement is return / raise / continue / break, or an if/else both of whose branches
    cannot fall through) the REST OF THE SAME BLOCK is under `not C`; symmetrically under
    `C` when only the else branch cannot fall through.  The rest runs only if the `if`
    completed normally, i.e. the non-returning branch was taken.  Nothing is propagated
    out of the block (after a try / with / loop the extra conjunct is dropped).
 3. Atoms.  A test that is not about the mode becomes an opaque atom.  One atom per
    EVALUATION SITE (AST node): two textually equal tests get different atoms, because the
    value may have changed in between -- except when the test is a comparison over
    constants and parameters of the enclosing top-level function that are never stored,
    deleted, shadowed, passed to a call, or used as the base of an attribute / subscript
    anywhere in it (`"c" in flags`): then equal text = equal value = one atom.  Inside a
    loop a node is evaluated many times; every conjunct refers to the latest evaluation
    on the way to the sink, and a node occurs once on a path, so this is consistent.
 4. The mode atom `online`: ctx.online / self.online; online_mode inside a function that
    does `ctx.online = online_mode` and never rebinds it; a local assigned exactly once by
    `x = ctx.online`; `bool(...)` of these; `E is/== True/False`, `E is not/!= True/False`
    for such an E (the flag is a bool: obligation on the writes to `.online`, and
    execute_vyxal's callers pass a bool).  It is ONE atom for the whole program: the mode
    does not change during a run (same obligation) and every function works on the run's
    context (the ctx-forwarding obligation covers helpers with a default context).
 5. Nested def / lambda: its body is analysed on its own (with its own early exits) under
    the condition of the place where the def / lambda is evaluated -- the closure exists
    only if that place was reached.
 6. Module-level helper called only under a guard: see apply_helper_rule (private name,
    defined once, every use is a direct call, named in no string; else nothing is added).
The Coq side decides `formula false when online` by a syntactic check or, for formulas
without FUnknown and at most 12 atoms, by trying every assignment (proved sound).

Fail-closed:
* a condition that is not understood becomes an opaque atom (the guard check treats
  atoms as unknown) or FUnknown (match statements, code strings that do not parse);
* conjuncts are only ever DROPPED (early returns are not used), never invented, so the
  formula is implied by the real path condition;
* a sink name that is mentioned without being called (`map(print, ...)`, `f = eval`)
  is a sink of kind with argument AUnknown;
* a string constant that mentions a sink and does not parse as Python yields a sink
  with condition FUnknown;
* if this translator crashes, Sinks.v says `sinks_translator_ok := false` and C19's
  obligations (only) break.

Standard library only; /repo is read with `ast`, never imported."""
from __future__ import annotations

import ast
import glob
import os
import re
import sys

sys.path.insert(0, os.path.dirname(os.path.abspath(__file__)))
import gen_tables as G  # noqa: E402

BUILTIN_SINKS = {
    "print": "KPrint", "exec": "KExec", "eval": "KEval", "compile": "KCompile",
    "input": "KInput", "exit": "KExit", "quit": "KExit", "open": "KOpen",
    "urlopen": "KUrl", "urlretrieve": "KUrl", "__import__": "KImport", "breakpoint": "KInput",
    "system": "KSystem", "popen": "KSystem", "Popen": "KSystem",
    "parse_expr": "KSympy", "sympify": "KSympy", "make_expression": "KSympy",
}
# dotted prefixes: (regex on the dotted callee, kind)
DOTTED_SINKS = [
    (re.compile(r"^(builtins|__builtins__)\.(print)$"), "KPrint"),
    (re.compile(r"^(builtins|__builtins__)\.(exec)$"), "KExec"),
    (re.compile(r"^(builtins|__builtins__)\.(eval)$"), "KEval"),
    (re.compile(r"^(builtins|__builtins__)\.(compile)$"), "KCompile"),
    (re.compile(r"^(builtins|__builtins__)\.(input)$"), "KInput"),
    (re.compile(r"^(builtins|__builtins__)\.(open)$"), "KOpen"),
    (re.compile(r"^sys\.(stdout|__stdout__|stderr|__stderr__)(\..*)?$"), "KPrint"),
    (re.compile(r"^os\.write$"), "KPrint"),
    (re.compile(r"^sys\.stdin(\..*)?$"), "KInput"),
    (re.compile(r"^(sys\.exit|os\._exit)$"), "KExit"),
    (re.compile(r"^os\.(system|popen|exec[a-z]*|spawn[a-z]*|startfile|fork)$"), "KSystem"),
    (re.compile(r"^subprocess\..*$"), "KSystem"),
    (re.compile(r"^(urllib\.request|request|urllib)\.(urlopen|Request|urlretrieve)$"), "KUrl"),
    (re.compile(r"^(io|codecs|os)\.(open|fdopen)$"), "KOpen"),
    (re.compile(r"^importlib\..*$"), "KImport"),
    (re.compile(r"^(sympy|sympy\.parsing\.sympy_parser)\.(parse_expr|sympify|S)$"), "KSympy"),
    # every other sympy entry point sympifies -- i.e. parses and EVALUATES -- a str argument
    # (nsimplify, simplify, expand, N, ...); the constructors below parse numerals only
    (re.compile(r"^sympy\.(?!Rational$|Integer$|Float$|Symbol$|symbols$|Basic$|Expr$|core\.|oo$|pi$|E$|I$|nan$|zoo$)[A-Za-z_][A-Za-z_0-9.]*$"), "KSympy"),
]
TRIGGER = re.compile(
    r"(?<![A-Za-z0-9_])(print|exec|eval|compile|input|exit|quit|open|system|popen|Popen|urlopen|"
    r"__import__|parse_expr|sympify|make_expression|stdout|subprocess)\s*[\(\.]"
)
KINDS = ["KPrint", "KExec", "KEval", "KCompile", "KInput", "KExit", "KUrl", "KOpen", "KSystem", "KImport", "KSympy"]
ARGKINDS = ["AConst", "AUser", "APycode", "ATranspiled", "AUnknown"]


# ---------------------------------------------------------------------------
# formulas (python side): tuples
# ---------------------------------------------------------------------------
T = ("T",)
ON = ("On",)
UNK = ("Unk",)


def f_not(f):
    if f[0] == "Not":
        return f[1]
    return ("Not", f)


def f_and(f, g):
    if f == T:
        return g
    if g == T:
        return f
    return ("And", f, g)


def f_or(f, g):
    return ("Or", f, g)


def coq_formula(f, atoms):
    k = f[0]
    if k == "T":
        return "FTrue"
    if k == "On":
        return "FOnline"
    if k == "Unk":
        return "FUnknown"
    if k == "Atom":
        return f"(FAtom {atoms.index(f[1])})"
    if k == "Not":
        return f"(FNot {coq_formula(f[1], atoms)})"
    if k == "And":
        return f"(FAnd {coq_formula(f[1], atoms)} {coq_formula(f[2], atoms)})"
    if k == "Or":
        return f"(FOr {coq_formula(f[1], atoms)} {coq_formula(f[2], atoms)})"
    raise G.TranslatorError(f"formula {f!r}")


def atoms_of(f, acc):
    if f[0] == "Atom":
        if f[1] not in acc:
            acc.append(f[1])
    else:
        for g in f[1:]:
            atoms_of(g, acc)


def show_formula(f, atoms=None):
    k = f[0]
    if k == "T":
        return "true"
    if k == "On":
        return "online"
    if k == "Unk":
        return "UNKNOWN"
    if k == "Atom":
        return "{" + f[1] + "}"
    if k == "Not":
        return "not " + show_formula(f[1], atoms)
    if k == "And":
        return "(" + show_formula(f[1], atoms) + " and " + show_formula(f[2], atoms) + ")"
    return "(" + show_formula(f[1], atoms) + " or " + show_formula(f[2], atoms) + ")"


# python-side replica of Model/Online.v's guard (used only for the summary in the
# evidence file; the verdict is the Coq theorem)
def must_false(f):
    k = f[0]
    if k == "Not":
        return must_true(f[1])
    if k == "And":
        return must_false(f[1]) or must_false(f[2])
    if k == "Or":
        return must_false(f[1]) and must_false(f[2])
    return False


def sat_excludes(f):
    """python replica of Model/Online.v sat_excludes (summary only)"""
    import itertools
    names = []
    atoms_of(f, names)
    if "Unk" in repr(f) or len(names) > 12:
        return False

    def ev(g, env):
        k = g[0]
        if k == "T" or k == "On":
            return True
        if k == "Atom":
            return env[g[1]]
        if k == "Not":
            return not ev(g[1], env)
        if k == "And":
            return ev(g[1], env) and ev(g[2], env)
        return ev(g[1], env) or ev(g[2], env)
    return not any(ev(f, dict(zip(names, bits))) for bits in itertools.product((True, False), repeat=len(names)))


def must_true(f):
    k = f[0]
    if k in ("T", "On"):
        return True
    if k == "Not":
        return must_false(f[1])
    if k == "And":
        return must_true(f[1]) and must_true(f[2])
    if k == "Or":
        return must_true(f[1]) or must_true(f[2])
    return False


# ---------------------------------------------------------------------------
# the walker
# ---------------------------------------------------------------------------

def dotted(node):
    parts = []
    while isinstance(node, ast.Attribute):
        parts.append(node.attr)
        node = node.value
    if isinstance(node, ast.Name):
        parts.append(node.id)
        return ".".join(reversed(parts))
    return None


def local_names(fn):
    """parameters and assigned names of one function node (not descending into nested defs)"""
    out = set()
    if isinstance(fn, (ast.FunctionDef, ast.AsyncFunctionDef, ast.Lambda)):
        a = fn.args
        for x in a.posonlyargs + a.args + a.kwonlyargs:
            out.add(x.arg)
        if a.vararg:
            out.add(a.vararg.arg)
        if a.kwarg:
            out.add(a.kwarg.arg)
    body = fn.body if isinstance(fn.body, list) else [fn.body]
    stack = list(body)
    while stack:
        n = stack.pop()
        if isinstance(n, ast.Name) and isinstance(n.ctx, ast.Store):
            out.add(n.id)
        if isinstance(n, (ast.FunctionDef, ast.AsyncFunctionDef, ast.Lambda, ast.ClassDef)):
            continue
        stack.extend(ast.iter_child_nodes(n))
    return out


class Walker:
    def __init__(self, relfile, atoms, sinks, online_writes):
        self.file = relfile
        self.atoms = atoms            # list of unparse() texts, index = atom number
        self.sinks = sinks
        self.online_writes = online_writes
        self.fnodes = []              # stack of enclosing function/lambda nodes
        self.online_param_ok = False  # inside a function with `ctx.online = online_mode`
        self.node_atoms = {}          # id(test node) -> atom (a node has ONE atom however often it is translated)
        self.stable_cache = {}        # id(outermost function) -> names that cannot change in it
        self.alias_cache = {}         # id(outermost function) -> local names that are `= ctx.online`, assigned once
        self.calls = []               # (callee bare name, path condition of the call) for the helper rule
        self.mentions = set()         # names used other than as the callee of a direct call
        self.strings = []             # every string constant (a helper named in one may be called from generated code)

    # -- conditions -------------------------------------------------------
    def stable_names(self):
        """Parameters of the outermost enclosing function that cannot change value or
        content while it runs: never stored / deleted / augmented anywhere in it (nested
        functions included), and every load is an operand of a comparison, of and/or/not,
        a test, or the iterable of a for -- never a call argument, never the base of an
        attribute or subscript (so no method can mutate the object through this name)."""
        if not self.fnodes:
            return frozenset()
        f = self.fnodes[0]
        if id(f) in self.stable_cache:
            return self.stable_cache[id(f)]
        params = set()
        if isinstance(f, (ast.FunctionDef, ast.AsyncFunctionDef, ast.Lambda)):
            a = f.args
            params = {x.arg for x in a.posonlyargs + a.args + a.kwonlyargs}
        bad = set()
        parent = {}
        for n in ast.walk(f):
            for c in ast.iter_child_nodes(n):
                parent[id(c)] = n
            if isinstance(n, (ast.Global, ast.Nonlocal)):
                bad |= set(n.names)
            if n is not f and isinstance(n, (ast.FunctionDef, ast.AsyncFunctionDef, ast.Lambda)):
                a = n.args
                bad |= {x.arg for x in a.posonlyargs + a.args + a.kwonlyargs}   # shadowed in a nested scope
                if a.vararg:
                    bad.add(a.vararg.arg)
                if a.kwarg:
                    bad.add(a.kwarg.arg)
        for n in ast.walk(f):
            if isinstance(n, ast.Name) and n.id in params:
                par = parent.get(id(n))
                ok = isinstance(n.ctx, ast.Load) and (
                    isinstance(par, (ast.Compare, ast.BoolOp))
                    or (isinstance(par, ast.UnaryOp) and isinstance(par.op, ast.Not))
                    or (isinstance(par, (ast.If, ast.While, ast.IfExp, ast.Assert)) and par.test is n)
                    or (isinstance(par, (ast.For, ast.AsyncFor)) and par.iter is n))
                if not ok:
                    bad.add(n.id)
        out = frozenset(params - bad)
        self.stable_cache[id(f)] = out
        return out

    def is_stable_expr(self, node):
        """a comparison (or a bare name) over constants and stable parameters only"""
        st = self.stable_names()
        if isinstance(node, ast.Name):
            return node.id in st
        if isinstance(node, ast.Compare):
            return all(isinstance(x, ast.Constant) or (isinstance(x, ast.Name) and x.id in st) for x in [node.left] + node.comparators)
        return False

    def atom(self, node):
        if id(node) in self.node_atoms:
            return self.node_atoms[id(node)]
        try:
            text = ast.unparse(node)
        except Exception:  # noqa: BLE001
            return UNK
        text = " ".join(text.split())[:100]
        if self.is_stable_expr(node):
            # same text in the same function = same value: one atom
            label = text + "  [stable in " + getattr(self.fnodes[0], "name", "<lambda>") + "]"
        else:
            # the value may differ between two evaluations: one atom per evaluation site
            self.serial[0] += 1
            label = f"{text}  [{self.file}:{getattr(node, 'lineno', 0) + self.line_base} #{self.serial[0]}]"
        a = ("Atom", label)
        self.node_atoms[id(node)] = a
        return a

    def online_aliases(self):
        """local names assigned exactly once in the outermost function, by `name = ctx.online`"""
        if not self.fnodes:
            return frozenset()
        f = self.fnodes[0]
        if id(f) in self.alias_cache:
            return self.alias_cache[id(f)]
        stores, good = {}, set()
        params = local_names(f) if isinstance(f, ast.Lambda) else {x.arg for x in f.args.posonlyargs + f.args.args + f.args.kwonlyargs}
        for n in ast.walk(f):
            if isinstance(n, ast.Name) and isinstance(n.ctx, (ast.Store, ast.Del)):
                stores[n.id] = stores.get(n.id, 0) + 1
            if isinstance(n, (ast.Global, ast.Nonlocal)):
                for x in n.names:
                    stores[x] = stores.get(x, 0) + 2
            if n is not f and isinstance(n, (ast.FunctionDef, ast.AsyncFunctionDef, ast.Lambda)):
                for x in n.args.posonlyargs + n.args.args + n.args.kwonlyargs:
                    stores[x.arg] = stores.get(x.arg, 0) + 2
            if (isinstance(n, ast.Assign) and len(n.targets) == 1 and isinstance(n.targets[0], ast.Name)
                    and isinstance(n.value, ast.Attribute) and n.value.attr == "online"
                    and isinstance(n.value.value, ast.Name) and n.value.value.id in ("ctx", "self")):
                good.add(n.targets[0].id)
        out = frozenset(x for x in good if stores.get(x, 0) == 1 and x not in params)
        self.alias_cache[id(f)] = out
        return out

    def cond_of(self, node):
        if isinstance(node, ast.Attribute) and node.attr == "online" and isinstance(node.value, ast.Name) and node.value.id in ("ctx", "self"):
            return ON
        if isinstance(node, ast.Name) and node.id == "online_mode" and self.online_param_ok:
            return ON
        if isinstance(node, ast.Name) and node.id in self.online_aliases():
            return ON
        if (isinstance(node, ast.Call) and isinstance(node.func, ast.Name) and node.func.id == "bool"
                and len(node.args) == 1 and not node.keywords and self.cond_of(node.args[0]) in (ON, f_not(ON))):
            return self.cond_of(node.args[0])
        if isinstance(node, ast.Compare) and len(node.ops) == 1 and isinstance(node.comparators[0], ast.Constant) \
                and node.comparators[0].value in (True, False) and isinstance(node.comparators[0].value, bool):
            inner = self.cond_of(node.left)
            if inner in (ON, f_not(ON)):       # the mode flag is a bool (obligation on its writes)
                want = node.comparators[0].value
                if isinstance(node.ops[0], (ast.Is, ast.Eq)):
                    return inner if want else f_not(inner)
                if isinstance(node.ops[0], (ast.IsNot, ast.NotEq)):
                    return f_not(inner) if want else inner
        if isinstance(node, ast.Constant) and node.value is True:
            return T
        if isinstance(node, ast.Constant) and node.value is False:
            return f_not(T)
        if isinstance(node, ast.UnaryOp) and isinstance(node.op, ast.Not):
            return f_not(self.cond_of(node.operand))
        if isinstance(node, ast.BoolOp):
            parts = [self.cond_of(v) for v in node.values]
            acc = parts[0]
            for p in parts[1:]:
                acc = ("And", acc, p) if isinstance(node.op, ast.And) else f_or(acc, p)
            return acc
        if isinstance(node, ast.NamedExpr):
            return self.cond_of(node.value)
        return self.atom(node)

    # -- sinks --------------------------------------------------------------
    def fn_label(self, fn):
        return ".".join(fn) if fn else "<module>"

    def argkind(self, call):
        if not call.args and not call.keywords:
            return "AConst"
        a = call.args[0] if call.args else call.keywords[0].value
        return self.exprkind(a, call.lineno)

    def exprkind(self, a, lineno):
        if isinstance(a, ast.Constant):
            return "AConst"
        if isinstance(a, ast.Call):
            d = dotted(a.func) or ""
            if d.split(".")[-1] == "pycode":
                return "APycode"
            if d.split(".")[-1] == "transpile":
                return "ATranspiled"
        locs = set()
        for f in self.fnodes:
            locs |= local_names(f)
        if isinstance(a, ast.Name):
            # the lexically last assignment to the name before the sink decides
            best = None
            for f in self.fnodes[-1:]:
                for n in ast.walk(f):
                    if isinstance(n, ast.Assign) and n.lineno < lineno:
                        for t in n.targets:
                            if isinstance(t, ast.Name) and t.id == a.id and (best is None or n.lineno > best.lineno):
                                best = n
            if best is not None and isinstance(best.value, ast.Call) and (dotted(best.value.func) or "").split(".")[-1] == "transpile":
                return "ATranspiled"
            return "AUser" if a.id in locs else "AUnknown"
        for n in ast.walk(a):
            if isinstance(n, ast.Name) and n.id in locs:
                return "AUser"
        return "AUnknown"

    def record(self, kind, node, cond, fn, argk, callee, indirect=False):
        self.sinks.append({
            "file": self.file, "fn": self.fn_label(fn), "line": getattr(node, "lineno", 0) + self.line_base,
            "kind": kind, "arg": argk, "cond": cond, "callee": callee, "indirect": indirect,
        })

    def sink_kind_of(self, func):
        if isinstance(func, ast.Name):
            return BUILTIN_SINKS.get(func.id), func.id
        d = dotted(func)
        if d is None:
            # something like f(x).exit(...) : only the attribute name is known
            if isinstance(func, ast.Attribute) and func.attr in ("system", "popen", "Popen", "urlopen"):
                return BUILTIN_SINKS[func.attr], "?." + func.attr
            return None, None
        for rx, kind in DOTTED_SINKS:
            if rx.match(d):
                return kind, d
        last = d.split(".")[-1]
        if last in ("make_expression", "parse_expr", "sympify", "urlopen", "Popen"):
            return BUILTIN_SINKS[last], d
        return None, d

    # -- traversal ----------------------------------------------------------
    line_base = 0

    @staticmethod
    def no_fall_through(body):
        """Can control never reach the end of this block?  (last statement returns, raises,
        continues or breaks; or is an if/else both of whose branches cannot fall through)"""
        if not body:
            return False
        last = body[-1]
        if isinstance(last, (ast.Return, ast.Raise, ast.Continue, ast.Break)):
            return True
        if isinstance(last, ast.If) and last.orelse:
            return Walker.no_fall_through(last.body) and Walker.no_fall_through(last.orelse)
        return False

    def stmts(self, body, cond, fn):
        for st in body:
            self.stmt(st, cond, fn)
            if isinstance(st, ast.If):
                # the rest of the block runs only if the `if` statement completed normally
                c = self.cond_of(st.test)
                if self.no_fall_through(st.body) and not self.no_fall_through(st.orelse):
                    cond = f_and(cond, f_not(c))
                elif st.orelse and self.no_fall_through(st.orelse) and not self.no_fall_through(st.body):
                    cond = f_and(cond, c)

    def stmt(self, st, cond, fn):
        if isinstance(st, (ast.FunctionDef, ast.AsyncFunctionDef)):
            for d in st.decorator_list:
                self.expr(d, cond, fn)
            for d in st.args.defaults + [x for x in st.args.kw_defaults if x is not None]:
                self.expr(d, cond, fn)
            saved = self.online_param_ok
            if any(
                isinstance(n, ast.Assign) and len(n.targets) == 1 and isinstance(n.targets[0], ast.Attribute)
                and n.targets[0].attr == "online" and isinstance(n.value, ast.Name) and n.value.id == "online_mode"
                for n in st.body
            ) and "online_mode" in [a.arg for a in st.args.args] and not any(
                isinstance(n, ast.Name) and n.id == "online_mode" and isinstance(n.ctx, ast.Store) for n in ast.walk(st)
            ):
                self.online_param_ok = True
            self.fnodes.append(st)
            body = st.body
            if body and isinstance(body[0], ast.Expr) and isinstance(body[0].value, ast.Constant) and isinstance(body[0].value.value, str):
                body = body[1:]  # docstring
            self.stmts(body, cond, fn + [st.name])
            self.fnodes.pop()
            self.online_param_ok = saved
        elif isinstance(st, ast.ClassDef):
            for d in st.decorator_list + st.bases:
                self.expr(d, cond, fn)
            body = st.body
            if body and isinstance(body[0], ast.Expr) and isinstance(body[0].value, ast.Constant) and isinstance(body[0].value.value, str):
                body = body[1:]
            self.stmts(body, cond, fn + [st.name])
        elif isinstance(st, ast.If):
            self.expr(st.test, cond, fn)
            c = self.cond_of(st.test)
            self.stmts(st.body, f_and(cond, c), fn)
            self.stmts(st.orelse, f_and(cond, f_not(c)), fn)
        elif isinstance(st, ast.While):
            self.expr(st.test, cond, fn)
            c = self.cond_of(st.test)
            self.stmts(st.body, f_and(cond, c), fn)
            self.stmts(st.orelse, cond, fn)
        elif isinstance(st, (ast.For, ast.AsyncFor)):
            self.expr(st.iter, cond, fn)
            self.expr(st.target, cond, fn)
            self.stmts(st.body, cond, fn)
            self.stmts(st.orelse, cond, fn)
        elif isinstance(st, ast.Try) or type(st).__name__ == "TryStar":
            self.stmts(st.body, cond, fn)
            for h in st.handlers:
                if h.type is not None:
                    self.expr(h.type, cond, fn)
                self.stmts(h.body, cond, fn)
            self.stmts(st.orelse, cond, fn)
            self.stmts(st.finalbody, cond, fn)
        elif isinstance(st, (ast.With, ast.AsyncWith)):
            for it in st.items:
                self.expr(it.context_expr, cond, fn)
                if it.optional_vars is not None:
                    self.expr(it.optional_vars, cond, fn)
            self.stmts(st.body, cond, fn)
        elif isinstance(st, ast.Match):
            self.expr(st.subject, cond, fn)
            for case in st.cases:
                if case.guard is not None:
                    self.expr(case.guard, f_and(cond, UNK), fn)
                self.stmts(case.body, f_and(cond, UNK), fn)
        elif isinstance(st, ast.Assert):
            self.expr(st.test, cond, fn)
            if st.msg is not None:
                self.expr(st.msg, f_and(cond, f_not(self.cond_of(st.test))), fn)
        elif isinstance(st, ast.Expr) and isinstance(st.value, ast.Constant) and isinstance(st.value.value, str):
            return  # a bare string statement (docstring / comment string): never executed as code
        elif isinstance(st, (ast.Assign, ast.AnnAssign)) and self.is_table_display(st):
            val = st.value
            for k, v in zip(val.keys, val.values):
                label = "tpl ?"
                if isinstance(k, ast.Constant) and isinstance(k.value, str):
                    label = "tpl " + k.value
                if k is not None:
                    self.expr(k, cond, fn)
                self.expr(v, cond, [label])
        else:
            if isinstance(st, ast.Assign):
                for t in st.targets:
                    if isinstance(t, ast.Attribute) and t.attr == "online":
                        self.online_write(st, fn)
            elif isinstance(st, (ast.AugAssign, ast.AnnAssign)) and isinstance(st.target, ast.Attribute) and st.target.attr == "online":
                self.online_write(st, fn)
            for child in ast.iter_child_nodes(st):
                if isinstance(child, ast.expr):
                    self.expr(child, cond, fn)
                elif isinstance(child, ast.stmt):
                    self.stmt(child, cond, fn)

    def is_table_display(self, st):
        tgt = st.targets[0] if isinstance(st, ast.Assign) and len(st.targets) == 1 else getattr(st, "target", None)
        return (isinstance(tgt, ast.Name) and tgt.id in ("elements", "modifiers") and isinstance(st.value, ast.Dict)
                and not self.fnodes)

    def online_write(self, st, fn):
        v = getattr(st, "value", None)
        if isinstance(st, ast.AugAssign):
            kind = "WOther"
        elif isinstance(v, ast.Constant) and v.value is False:
            kind = "WFalse"
        elif isinstance(v, ast.Attribute) and v.attr == "online":
            kind = "WCopy"
        elif isinstance(v, ast.Name) and v.id == "online_mode":
            kind = "WParam"
        else:
            kind = "WOther"
        self.online_writes.append({"file": self.file, "fn": self.fn_label(fn), "line": st.lineno, "kind": kind})

    def expr(self, e, cond, fn):
        if e is None:
            return
        if isinstance(e, ast.IfExp):
            self.expr(e.test, cond, fn)
            c = self.cond_of(e.test)
            self.expr(e.body, f_and(cond, c), fn)
            self.expr(e.orelse, f_and(cond, f_not(c)), fn)
        elif isinstance(e, ast.BoolOp):
            acc = cond
            for v in e.values:
                self.expr(v, acc, fn)
                c = self.cond_of(v)
                acc = f_and(acc, c if isinstance(e.op, ast.And) else f_not(c))
        elif isinstance(e, ast.Lambda):
            for d in e.args.defaults + [x for x in e.args.kw_defaults if x is not None]:
                self.expr(d, cond, fn)
            self.fnodes.append(e)
            self.expr(e.body, cond, fn + ["<lambda>"])
            self.fnodes.pop()
        elif isinstance(e, ast.Call):
            if isinstance(e.func, ast.Name):
                self.calls.append((e.func.id, cond, bool(self.line_base or (fn and fn[0].startswith("tpl ")))))
            kind, callee = self.sink_kind_of(e.func)
            if kind is not None:
                self.record(kind, e, cond, fn, self.argkind(e), callee)
                # the callee expression itself must not be recorded again as a bare reference
                if isinstance(e.func, ast.Attribute):
                    self.expr_children_of_attr(e.func, cond, fn)
            elif not isinstance(e.func, ast.Name):
                self.expr(e.func, cond, fn)
            for a in e.args:
                self.expr(a, cond, fn)
            for k in e.keywords:
                self.expr(k.value, cond, fn)
        elif isinstance(e, ast.Name):
            self.mentions.add(e.id)
            if isinstance(e.ctx, ast.Load) and e.id in BUILTIN_SINKS and BUILTIN_SINKS[e.id] != "KSympy":
                locs = set()
                for f in self.fnodes:
                    locs |= local_names(f)
                if e.id not in locs:
                    self.record(BUILTIN_SINKS[e.id], e, cond, fn, "AUnknown", e.id, indirect=True)
        elif isinstance(e, ast.Attribute):
            self.mentions.add(e.attr)
            d = dotted(e)
            if d is not None:
                for rx, kind in DOTTED_SINKS:
                    if rx.match(d):
                        self.record(kind, e, cond, fn, "AUnknown", d, indirect=True)
                        return
            self.expr(e.value, cond, fn)
        elif isinstance(e, ast.Constant):
            if isinstance(e.value, str):
                self.strings.append(e.value)
            if isinstance(e.value, str) and TRIGGER.search(e.value):
                self.code_string(e, e.value, cond, fn)
        elif isinstance(e, ast.JoinedStr):
            for v in e.values:
                if isinstance(v, ast.FormattedValue):
                    self.expr(v.value, cond, fn)
                elif isinstance(v, ast.Constant) and isinstance(v.value, str) and TRIGGER.search(v.value):
                    self.unparsed_string(v, v.value, cond, fn)
        elif isinstance(e, (ast.ListComp, ast.SetComp, ast.GeneratorExp, ast.DictComp)):
            for g in e.generators:
                self.expr(g.iter, cond, fn)
                for i in g.ifs:
                    self.expr(i, cond, fn)
            if isinstance(e, ast.DictComp):
                self.expr(e.key, cond, fn)
                self.expr(e.value, cond, fn)
            else:
                self.expr(e.elt, cond, fn)
        else:
            for child in ast.iter_child_nodes(e):
                if isinstance(child, ast.expr):
                    self.expr(child, cond, fn)

    def expr_children_of_attr(self, attr, cond, fn):
        node = attr
        while isinstance(node, ast.Attribute):
            node = node.value
        if not isinstance(node, ast.Name):
            self.expr(node, cond, fn)

    def code_string(self, node, text, cond, fn):
        """A string constant that mentions a sink: element/modifier templates and any
        other code kept as text.  Parsed as Python and walked like source; when it does
        not parse, one FUnknown sink per mention."""
        try:
            tree = ast.parse(text)
        except (SyntaxError, ValueError):
            self.unparsed_string(node, text, cond, fn)
            return
        sub = fn if (fn and fn[0].startswith("tpl ")) else fn + [f"<str@{node.lineno}>"]
        saved_base, saved_nodes = self.line_base, self.fnodes
        self.line_base = node.lineno - 1
        self.fnodes = []
        try:
            self.stmts(tree.body, cond, sub)
        finally:
            self.line_base, self.fnodes = saved_base, saved_nodes

    def unparsed_string(self, node, text, cond, fn):
        for m in TRIGGER.finditer(text):
            name = m.group(1)
            kind = BUILTIN_SINKS.get(name, "KPrint" if name == "stdout" else "KSystem")
            sub = fn if (fn and fn[0].startswith("tpl ")) else fn + [f"<str@{node.lineno}>"]
            self.record(kind, node, f_and(cond, UNK), sub, "AUnknown", name + " (in unparsed text)", indirect=True)



# ---------------------------------------------------------------------------
# ctx forwarding: calls of helpers whose `ctx` parameter has a DEFAULT value
# ---------------------------------------------------------------------------

def ctx_helpers(trees):
    """name -> list of (file, line, index of ctx among positional params or None,
    default text, is a method).  Every def (module level, nested, method) counts."""
    out = {}
    for rel, tree in trees:
        for n in ast.walk(tree):
            if not isinstance(n, (ast.FunctionDef, ast.AsyncFunctionDef)):
                continue
            a = n.args
            pos = a.posonlyargs + a.args
            names = [x.arg for x in pos]
            dflt = dict(zip(names[len(names) - len(a.defaults):], a.defaults))
            for x, d in zip(a.kwonlyargs, a.kw_defaults):
                if d is not None:
                    dflt[x.arg] = d
            if "ctx" in dflt:
                out.setdefault(n.name, []).append({
                    "file": rel, "line": n.lineno, "index": names.index("ctx") if "ctx" in names else None,
                    "default": ast.unparse(dflt["ctx"]), "method": names[:1] == ["self"]})
    return out



def top_level_defs(trees):
    """module-level functions and class methods, by bare name (nested defs belong to
    the body of their enclosing top-level function)"""
    defs = {}
    for rel, tree in trees:
        for n in tree.body:
            if isinstance(n, (ast.FunctionDef, ast.AsyncFunctionDef)):
                defs.setdefault(n.name, []).append(n)
            elif isinstance(n, ast.ClassDef):
                for m in n.body:
                    if isinstance(m, (ast.FunctionDef, ast.AsyncFunctionDef)):
                        defs.setdefault(m.name, []).append(m)
    return defs


def body_nodes(fn):
    for st in fn.body:
        yield from ast.walk(st)


def reach_sets(trees):
    """name-based, over-approximating call graph over the top-level defs.
    calls_user: can (transitively) call a value it was handed -- safe_apply, or a call whose
    callee is a parameter / local.  reaches_mode: calls_user, or reads `.online` /
    `.online_output`, or contains a print / eval / exec / compile / input sink."""
    defs = top_level_defs(trees)
    probe = Walker("x", [], [], [])
    seeds_user, seeds_mode, callees = {}, {}, {}
    for name, nodes in defs.items():
        cs = set()
        for n in nodes:
            locs = local_names(n)
            for x in body_nodes(n):
                if isinstance(x, (ast.FunctionDef, ast.AsyncFunctionDef, ast.Lambda)):
                    locs = locs | local_names(x)
            for x in body_nodes(n):
                if isinstance(x, ast.Attribute) and x.attr in ("online", "online_output"):
                    seeds_mode.setdefault(name, "reads ." + x.attr)
                if isinstance(x, ast.Call):
                    if isinstance(x.func, ast.Name):
                        cs.add(x.func.id)
                        if x.func.id == "safe_apply":
                            seeds_user.setdefault(name, "safe_apply")
                        elif x.func.id in locs and x.func.id not in defs:
                            seeds_user.setdefault(name, "calls the value " + x.func.id)
                    elif isinstance(x.func, ast.Attribute):
                        cs.add(x.func.attr)
                    k, _ = probe.sink_kind_of(x.func)
                    if k in ("KPrint", "KExec", "KEval", "KInput", "KCompile"):
                        seeds_mode.setdefault(name, "sink " + k)
                elif isinstance(x, ast.Name) and isinstance(x.ctx, ast.Load) and x.id in defs:
                    cs.add(x.id)
        callees[name] = cs & set(defs)

    def close(seeds):
        reach = dict(seeds)
        changed = True
        while changed:
            changed = False
            for k in defs:
                if k not in reach:
                    for c in sorted(callees[k]):
                        if c in reach:
                            reach[k] = "via " + c
                            changed = True
                            break
        return reach
    user = close(seeds_user)
    mode = close({**seeds_mode, **seeds_user})
    return defs, user, mode


class CtxWalker:
    """every call (and every bare reference) of a defaulted-ctx helper, with whether the
    caller has a `ctx` in scope and whether the call passes it"""

    def __init__(self, rel, helpers, out):
        self.rel, self.helpers, self.out = rel, helpers, out
        self.forwarded = set()

    def has_ctx(self, fnodes):
        for f in fnodes:
            if "ctx" in local_names(f):
                return True
        return False

    def visit(self, node, fn, fnodes, in_template):
        if isinstance(node, (ast.FunctionDef, ast.AsyncFunctionDef)):
            for d in node.decorator_list + node.args.defaults + [x for x in node.args.kw_defaults if x is not None]:
                self.visit(d, fn, fnodes, in_template)
            for st in node.body:
                self.visit(st, fn + [node.name], fnodes + [node], in_template)
            return
        if isinstance(node, ast.Lambda):
            self.visit(node.body, fn + ["<lambda>"], fnodes + [node], in_template)
            return
        if isinstance(node, ast.ClassDef):
            for st in node.body:
                self.visit(st, fn + [node.name], fnodes, in_template)
            return
        if isinstance(node, ast.Call) and any(k.arg == "ctx" for k in node.keywords):
            # f(helper, ..., ctx=ctx): the helper is handed on together with the context
            for a in node.args:
                if isinstance(a, ast.Name) and a.id in self.helpers:
                    self.forwarded.add(id(a))
        if isinstance(node, ast.Call):
            name = None
            method = False
            if isinstance(node.func, ast.Name):
                name = node.func.id
            elif isinstance(node.func, ast.Attribute):
                name, method = node.func.attr, True
            if name in self.helpers:
                cands = [h for h in self.helpers[name] if h["method"] == method or not method]
                if method:
                    # x.name(...): only methods, or module functions reached as module.name
                    cands = [h for h in self.helpers[name] if h["method"]] or (
                        self.helpers[name] if isinstance(node.func.value, ast.Name) and node.func.value.id in ("vyxal", "helpers", "elements") or (dotted(node.func.value) or "").startswith("vyxal.") else [])
                if cands:
                    passes = any(k.arg == "ctx" or k.arg is None for k in node.keywords)
                    star = any(isinstance(a, ast.Starred) for a in node.args)
                    if not passes and not star:
                        # positional: enough arguments to reach ctx in EVERY candidate definition
                        passes = all(h["index"] is not None and len(node.args) > h["index"] - (1 if h["method"] else 0) for h in cands)
                    self.record(node, name, fn, fnodes, in_template, passes, "call", cands)
                self.visit_children(node, fn, fnodes, in_template, skip_func=isinstance(node.func, ast.Name))
                return
        if isinstance(node, ast.Name) and isinstance(node.ctx, ast.Load) and node.id in self.helpers:
            locs = set()
            for f in fnodes:
                locs |= local_names(f)
            if node.id not in locs:
                self.record(node, node.id, fn, fnodes, in_template, id(node) in self.forwarded,
                            "reference-with-ctx" if id(node) in self.forwarded else "reference", self.helpers[node.id])
            return
        if isinstance(node, ast.Constant) and isinstance(node.value, str) and in_template is not None:
            try:
                tree = ast.parse(node.value)
            except (SyntaxError, ValueError):
                return
            for st in tree.body:
                self.visit(st, [in_template], [], "<inside>")
            return
        self.visit_children(node, fn, fnodes, in_template)

    def visit_children(self, node, fn, fnodes, in_template, skip_func=False):
        for child in ast.iter_child_nodes(node):
            if skip_func and child is getattr(node, "func", None):
                continue
            self.visit(child, fn, fnodes, in_template)

    def record(self, node, name, fn, fnodes, in_template, passes, how, cands):
        has = in_template == "<inside>" or self.has_ctx(fnodes)
        self.out.append({
            "file": self.rel, "fn": ".".join(fn) if fn else "<module>", "line": getattr(node, "lineno", 0),
            "callee": name, "how": how, "passes": bool(passes), "caller_has_ctx": bool(has),
            "default": "/".join(sorted({h["default"] for h in cands})),
        })


def analyse_ctx(repo, files):
    trees = []
    for path in files:
        if os.path.basename(path) == "dictionary.py":
            continue
        tree, _ = G.module_of(path)
        trees.append(("vyxal/" + os.path.basename(path), tree))
    helpers = ctx_helpers(trees)
    calls = []
    for rel, tree in trees:
        w = CtxWalker(rel, helpers, calls)
        for st in tree.body:
            if isinstance(st, (ast.Assign, ast.AnnAssign)) and isinstance(st.value, ast.Dict):
                tgt = st.targets[0] if isinstance(st, ast.Assign) else st.target
                if isinstance(tgt, ast.Name) and tgt.id in ("elements", "modifiers"):
                    for k, v in zip(st.value.keys, st.value.values):
                        label = "tpl " + (k.value if isinstance(k, ast.Constant) and isinstance(k.value, str) else "?")
                        w.visit(v, [label], [], label)
                    continue
            w.visit(st, [], [], None)
    calls.sort(key=lambda c: (c["file"], c["line"], c["callee"]))
    defs, user, mode = reach_sets(trees)
    for c in calls:
        c["risky"] = c["callee"] in mode or c["callee"] not in defs
        c["why_risky"] = mode.get(c["callee"], "")
    return helpers, calls, user, mode


def apply_helper_rule(sinks, calls, mentions, strings, module_defs):
    """A sink inside a module-level helper H is additionally under the disjunction of the
    path conditions of H's call sites -- when H cannot be reached any other way:
    H is defined exactly once in vyxal/*.py, its name is private (leading underscore: not
    picked up by `from module import *`), it is never mentioned except as the callee of a
    direct call `H(...)` (no reference, no attribute of that name, no import of it, no
    call inside a code string), its name occurs in no string constant (so generated code
    cannot call it), and it has at least one call site.  Otherwise nothing is added."""
    import re as _re
    by_name = {}
    for name, cond, in_string in calls:
        by_name.setdefault(name, []).append((cond, in_string))
    for s in sinks:
        h = s["fn"].split(".")[0]
        if s["fn"].startswith(("tpl ", "<")) or not h.startswith("_") or h.startswith("__"):
            continue
        if module_defs.get(h, 0) != 1 or h in mentions or h not in by_name:
            continue
        if any(in_string for _, in_string in by_name[h]):
            continue
        rx = _re.compile(r"(?<![A-Za-z0-9_])" + _re.escape(h) + r"(?![A-Za-z0-9_])")
        if any(rx.search(t) for t in strings):
            continue
        sites = [c for c, _ in by_name[h]]
        disj = sites[0]
        for c in sites[1:]:
            disj = f_or(disj, c)
        s["cond"] = f_and(s["cond"], disj)
        s["helper_rule"] = len(sites)


def analyse(repo):
    files = sorted(glob.glob(os.path.join(repo, "vyxal", "*.py")))
    G.need(len(files) >= 8, "vyxal/*.py: fewer files than expected")
    atoms, sinks, writes = [], [], []
    serial = [0]
    calls, mentions, strings, module_defs = [], set(), [], {}
    for path in files:
        rel = "vyxal/" + os.path.basename(path)
        tree, _ = G.module_of(path)
        w = Walker(rel, atoms, sinks, writes)
        w.serial = serial
        body = tree.body
        if body and isinstance(body[0], ast.Expr) and isinstance(body[0].value, ast.Constant) and isinstance(body[0].value.value, str):
            body = body[1:]
        w.stmts(body, T, [])
        calls += w.calls
        mentions |= w.mentions
        strings += w.strings
        for n in ast.walk(tree):
            if isinstance(n, (ast.FunctionDef, ast.AsyncFunctionDef, ast.ClassDef)):
                module_defs[n.name] = module_defs.get(n.name, 0) + 1
            if isinstance(n, (ast.Import, ast.ImportFrom)):
                for al in n.names:
                    mentions.add((al.asname or al.name).split(".")[0])
                    mentions.add(al.name.split(".")[-1])
    apply_helper_rule(sinks, calls, mentions, strings, module_defs)
    sinks.sort(key=lambda s: (s["file"], s["line"], s["kind"], s["fn"]))
    atoms = []
    for s in sinks:
        atoms_of(s["cond"], atoms)
    for s in sinks:
        s["cond_text"] = show_formula(s["cond"], atoms)
        s["guarded"] = must_false(s["cond"]) or sat_excludes(s["cond"])
    helpers, calls, user, mode = analyse_ctx(repo, files)
    return {"sinks": sinks, "atoms": atoms, "online_writes": writes, "files": [os.path.basename(f) for f in files], "error": None,
            "ctx_helpers": {k: v for k, v in sorted(helpers.items())}, "ctx_calls": calls,
            "calls_user_function": dict(sorted(user.items())), "reaches_mode_decision": dict(sorted(mode.items()))}


def emit(an):
    s = "(* GENERATED by tools/gen_sinks.py from /repo's working tree. Do not edit. *)\n"
    s += "From Coq Require Import List NArith Bool.\nFrom Vy Require Import Model.Base Model.Online.\nImport ListNotations.\nOpen Scope N_scope.\n"
    s += "Definition sinks_translator_ok : bool := true.\n"
    s += "(* opaque atoms (text of the condition, for the reader; the proofs never look inside):\n"
    for i, a in enumerate(an["atoms"]):
        s += f"   {i}: {a.replace('*)', '* )').replace('(*', '( *')}\n"
    s += "*)\n"
    rows = []
    for x in an["sinks"]:
        rows.append(
            "(* %s *)\n   {| s_file := %s; s_fn := %s; s_line := %d; s_kind := %s; s_arg := %s;\n      s_cond := %s |}"
            % ((x["callee"] + ("  [reference, not a call]" if x["indirect"] else "") + "  when " + x["cond_text"]).replace("*)", "* )").replace("(*", "( *"),
               G.cstr(x["file"]), G.cstr(x["fn"]), x["line"], x["kind"], x["arg"], coq_formula(x["cond"], an["atoms"]))
        )
    s += "Definition sinks : list sink :=\n  " + G.clist(rows, "sink") + ".\n"
    rows = []
    for c in an["ctx_calls"]:
        rows.append("{| c_file := %s; c_fn := %s; c_callee := %s; c_line := %d; c_passes := %s; c_has_ctx := %s; c_risky := %s; c_default_none := %s |}"
                    % (G.cstr(c["file"]), G.cstr(c["fn"]), G.cstr(c["callee"]), c["line"], G.cbool(c["passes"]), G.cbool(c["caller_has_ctx"]),
                       G.cbool(c["risky"]), G.cbool(c["default"] == "None")))
    s += "(* every call / bare reference of a helper whose `ctx` parameter has a default value *)\n"
    s += "Definition ctx_calls : list ctxcall :=\n  " + G.clist(rows, "ctxcall") + ".\n"
    rows = ["(%s, %s, %s)" % (G.cstr(w["file"]), G.cstr(w["fn"]), w["kind"]) for w in an["online_writes"]]
    s += "(* every assignment to an attribute called `online` *)\n"
    s += "Definition online_writes : list (str * str * write_kind) :=\n  " + G.clist(rows, "(str * str * write_kind)") + ".\n"
    return s


FAILED = (
    "(* GENERATED by tools/gen_sinks.py: the translator FAILED on the current sources: %s *)\n"
    "From Coq Require Import List NArith Bool.\nFrom Vy Require Import Model.Base Model.Online.\nImport ListNotations.\n"
    "Definition sinks_translator_ok : bool := false.\n"
    "Definition sinks : list sink := [].\n"
    "Definition online_writes : list (str * str * write_kind) := [].\n"
    "Definition ctx_calls : list ctxcall := [].\n"
)


def generate(repo, outdir):
    """-> (json tables, changed files).  A failure here must not take the other
    properties down: it is recorded in Sinks.v (sinks_translator_ok = false)."""
    try:
        an = analyse(repo)
        text = emit(an)
    except Exception as ex:  # noqa: BLE001
        an = {"sinks": [], "atoms": [], "online_writes": [], "files": [], "error": f"{type(ex).__name__}: {ex}",
              "ctx_helpers": {}, "ctx_calls": [], "calls_user_function": {}, "reaches_mode_decision": {}}
        text = FAILED % an["error"].replace("*)", "* )").replace("(*", "( *")[:200]
    changed = []
    if G.write_if_changed(os.path.join(outdir, "Sinks.v"), text):
        changed.append("Sinks.v")
    out = dict(an)
    out["sinks"] = [{k: v for k, v in x.items() if k != "cond"} for x in an["sinks"]]
    return out, changed


if __name__ == "__main__":
    repo = sys.argv[1] if len(sys.argv) > 1 else "/repo"
    an = analyse(repo)
    for x in an["sinks"]:
        print(f"{x['file']}:{x['line']:<6} {x['fn']:<34} {x['kind']:<9} {x['arg']:<11} {'GUARDED ' if x['guarded'] else '        '} {x['callee']}{' [ref]' if x['indirect'] else ''}  when {x['cond_text']}")
    bad = [c for c in an["ctx_calls"] if c["caller_has_ctx"] and not c["passes"] and c["risky"]]
    print(len(an["ctx_helpers"]), "helpers with a defaulted ctx;", len(an["ctx_calls"]), "calls/references;", len(bad), "from a function with ctx in scope that do not pass it to a helper that can reach a mode decision:")
    for c in bad:
        print(f"   {c['file']}:{c['line']:<6} {c['fn']:<34} {c['how']:<9} {c['callee']} (default {c['default']}; {c['why_risky']})")
    print(len(an["sinks"]), "sinks;", len(an["atoms"]), "atoms; online writes:", [(w['file'], w['fn'], w['kind']) for w in an["online_writes"]])
