#!/usr/bin/env python3
"""Translator for property C09: regenerates coq/Gen/StackTemplates.v.

Every element template (hand-written tuple or `process_element` boilerplate, duplicate
keys kept) and every modifier template of /repo/vyxal/elements.py is parsed with
Python's `ast` from the TEXT the transpiler emits and turned into a small
stack-program tree over the primitives of Model/StackEffect.v:

  statements  SSkip SSeq SEval SAssign SUnpack SPush SExtend SCopyAux SRaise SIf SWhile
              SOpaque(mentions_stack)
  expressions EConst EVar EApp EPop EWrap EPopDyn EWrapDyn EStackPop ELen EPeek ERead
              ECopy EAuxVal EFunCall EBad
  conditions  CExpr CLenGt CArityCmp CAnd COr CNot

Fail-closed: every occurrence of the name `stack` (or of the alias a template binds to
a copy of it, or of `ctx.stacks`, or an `eval`/`exec` over template locals, which can
name the stack) that is not one of the recognised primitive positions becomes `EBad` /
`SOpaque true`, both of which make `frame_ok` false in Coq.  Nothing in /repo is
imported or executed.  Standard library only.

`python tools/gen_quirks.py [repo] --survey` prints the distinct statement and
stack-expression shapes found, and the tree of every hand-written template.
"""
from __future__ import annotations

import ast
import json
import os
import re
import sys

sys.path.insert(0, os.path.dirname(os.path.abspath(__file__)))
import gen_tables as G  # noqa: E402

STACK = "stack"
FUNCTION_NAMES = {"function_A": 0, "function_B": 1, "function_C": 2}
DYNAMIC_EVAL = {"eval", "exec", "globals", "locals", "vars", "compile", "__import__"}
SAFE_EVAL_NAMES = {"datetime", "math", "string", "sympy"}   # modules whose attributes may feed eval()


# ----------------------------------------------------------------------------
# tree construction (Python tuples; rendered to Coq at the end)
# ----------------------------------------------------------------------------

class Tr:
    """Translation of one template text."""

    def __init__(self, text):
        self.text = text
        self.tree = ast.parse(text)
        self.locals = []          # names stored to anywhere in the template, in order
        self.alias = None         # local bound (once, at top level) to a copy of the stack
        self.shapes = set()       # survey: statement shapes
        self.stack_shapes = set() # survey: how `stack` is used
        self.counts = {"pop": 0, "wrap": 0, "push": 0, "extend": 0, "bad": 0, "opaque_stack": 0,
                       "funcall": 0, "len": 0, "copy": 0, "peek": 0, "read": 0, "stackpop": 0}
        for n in ast.walk(self.tree):
            if isinstance(n, ast.Name) and isinstance(n.ctx, (ast.Store, ast.Del)) and n.id != STACK:
                if n.id not in self.locals:
                    self.locals.append(n.id)
            elif isinstance(n, ast.arg) and n.arg not in self.locals:
                self.locals.append(n.arg)
        self._find_alias()

    # -- helpers -------------------------------------------------------------
    def is_stack(self, n):
        return isinstance(n, ast.Name) and n.id == STACK

    def is_alias(self, n):
        return self.alias is not None and isinstance(n, ast.Name) and n.id == self.alias

    def which(self, n):
        if self.is_stack(n):
            return "Main"
        if self.is_alias(n):
            return "Aux"
        return None

    def mentions(self, node):
        """Can evaluating `node` reach the stack (by its name, its alias, ctx.stacks)?"""
        for n in ast.walk(node):
            if isinstance(n, ast.Name) and (n.id == STACK or n.id == self.alias):
                return True
            if isinstance(n, ast.Attribute) and n.attr == "stacks":
                return True
            if isinstance(n, ast.Constant) and isinstance(n.value, str) and re.search(r"\bstacks?\b", n.value) and self._in_dynamic(node, n):
                return True
            if isinstance(n, ast.Call) and isinstance(n.func, ast.Name) and n.func.id in DYNAMIC_EVAL:
                # eval/exec over anything but constants and module attributes (data from the
                # stack, the context, a function result) can name `stack`
                if any(isinstance(m, ast.Name) and m.id not in SAFE_EVAL_NAMES for a in list(n.args) + [k.value for k in n.keywords] for m in ast.walk(a)):
                    return True
                if n.func.id in ("globals", "locals", "vars"):
                    return True
        return False

    @staticmethod
    def _in_dynamic(root, const):
        for n in ast.walk(root):
            if isinstance(n, ast.Call) and isinstance(n.func, ast.Name) and n.func.id in DYNAMIC_EVAL:
                if any(m is const for m in ast.walk(n)):
                    return True
        return False

    def is_copy_of_stack(self, v):
        """deep_copy(stack) / list(deep_copy(stack)) / list(stack) / stack[:] / stack.copy()"""
        if isinstance(v, ast.Call) and isinstance(v.func, ast.Name) and not v.keywords and len(v.args) == 1:
            if v.func.id == "deep_copy" and self.is_stack(v.args[0]):
                return True
            if v.func.id == "list" and (self.is_stack(v.args[0]) or self.is_copy_of_stack(v.args[0])):
                return True
        if isinstance(v, ast.Call) and isinstance(v.func, ast.Attribute) and v.func.attr == "copy" and self.is_stack(v.func.value) and not v.args and not v.keywords:
            return True
        if (isinstance(v, ast.Subscript) and self.is_stack(v.value) and isinstance(v.slice, ast.Slice)
                and v.slice.lower is None and v.slice.upper is None and v.slice.step is None):
            return True
        return False

    def _find_alias(self):
        cands = []
        for st in self.tree.body:
            if (isinstance(st, ast.Assign) and len(st.targets) == 1 and isinstance(st.targets[0], ast.Name)
                    and st.targets[0].id != STACK and self.is_copy_of_stack(st.value)):
                cands.append(st.targets[0].id)
        if len(cands) == 1:
            name = cands[0]
            stores = sum(1 for n in ast.walk(self.tree) if isinstance(n, ast.Name) and n.id == name and isinstance(n.ctx, (ast.Store, ast.Del)))
            if stores == 1:
                self.alias = name

    def var(self, name):
        return self.locals.index(name)

    # -- counts ----------------------------------------------------------------
    def count_of(self, node):
        """count argument of pop/wrapify -> ('CConst', n) | ('CArity', f) | ('CLen', w) | None (dynamic)"""
        try:
            n = G.int_const(node)
            if n >= 0:
                return ("CConst", n)
        except G.TranslatorError:
            pass
        if (isinstance(node, ast.Attribute) and node.attr == "arity" and isinstance(node.value, ast.Name)
                and node.value.id in FUNCTION_NAMES and node.value.id not in self.locals):
            return ("CArity", FUNCTION_NAMES[node.value.id])
        if (isinstance(node, ast.Call) and isinstance(node.func, ast.Name) and node.func.id == "len"
                and len(node.args) == 1 and not node.keywords and self.which(node.args[0])):
            return ("CLen", self.which(node.args[0]))
        return None

    def _ctx_ok(self, rest_args, keywords):
        """the remaining arguments of pop/wrapify are exactly the context"""
        names = [a for a in rest_args] + [k.value for k in keywords]
        if len(names) > 1:
            return False
        for k in keywords:
            if k.arg != "ctx":
                return False
        return all(isinstance(a, ast.Name) and a.id == "ctx" for a in names)

    # -- expressions -----------------------------------------------------------
    def bad(self, node, why):
        self.counts["bad"] += 1
        self.stack_shapes.add("EBad: " + why + ": " + shape_of(node))
        return ("EBad",)

    def const(self, node):
        return ("EConst", ast.unparse(node)[:60])

    def app(self, head, args):
        t = ("EConst", head)
        for a in args:
            t = ("EApp", t, a)
        return t

    def expr(self, n):
        # primitives on the stack first
        if isinstance(n, ast.Call):
            f = n.func
            if isinstance(f, ast.Name) and f.id in ("pop", "wrapify") and n.args and self.which(n.args[0]):
                w = self.which(n.args[0])
                kw = {k.arg: k.value for k in n.keywords}
                cnt_node = n.args[1] if len(n.args) >= 2 else kw.get("count")
                rest = list(n.args[2:])
                kws = [k for k in n.keywords if k.arg != "count" or len(n.args) >= 2]
                if cnt_node is None or not self._ctx_ok(rest, kws):
                    return self.bad(n, f"{f.id} with unrecognised arguments")
                c = self.count_of(cnt_node)
                kind = "pop" if f.id == "pop" else "wrap"
                self.counts[kind] += 1
                if c is not None:
                    self.stack_shapes.add(f"{f.id}({w}, {c[0]})")
                    return ("EPop" if kind == "pop" else "EWrap", w, c)
                self.stack_shapes.add(f"{f.id}({w}, <dynamic>)")
                return ("EPopDyn" if kind == "pop" else "EWrapDyn", w, self.expr(cnt_node))
            if isinstance(f, ast.Name) and f.id == "len" and len(n.args) == 1 and not n.keywords and self.which(n.args[0]):
                self.counts["len"] += 1
                self.stack_shapes.add("len(stack)")
                return ("ELen", self.which(n.args[0]))
            if (isinstance(f, ast.Name) and f.id == "function_call" and len(n.args) + len(n.keywords) == 2 and n.args
                    and self.is_stack(n.args[0]) and self._ctx_ok(n.args[1:], n.keywords)):
                self.counts["funcall"] += 1
                self.stack_shapes.add("function_call(stack, ctx)")
                return ("EFunCall",)
            if self.is_copy_of_stack(n):
                self.counts["copy"] += 1
                self.stack_shapes.add("copy of stack as value")
                return ("ECopy",)
            if (isinstance(f, ast.Name) and f.id == "index" and len(n.args) >= 2 and self.is_stack(n.args[0])
                    and not any(self.mentions(a) for a in n.args[1:]) and self._ctx_ok(n.args[2:], n.keywords)):
                self.counts["read"] += 1
                self.stack_shapes.add("index(stack, e, ctx)")
                return ("ERead", ast.unparse(n)[:60])
            if (isinstance(f, ast.Attribute) and f.attr == "pop" and self.is_stack(f.value) and not n.args and not n.keywords):
                self.counts["stackpop"] += 1
                self.stack_shapes.add("stack.pop()")
                return ("EStackPop",)
        if isinstance(n, ast.Subscript) and self.is_stack(n.value):
            if self.is_copy_of_stack(n):
                self.counts["copy"] += 1
                return ("ECopy",)
            try:
                i = G.int_const(n.slice)
                if i < 0:
                    self.counts["peek"] += 1
                    self.stack_shapes.add("stack[-i]")
                    return ("EPeek", -i - 1)
            except G.TranslatorError:
                pass
            if not self.mentions(n.slice):
                self.counts["read"] += 1
                self.stack_shapes.add("stack[e] read")
                return ("ERead", ast.unparse(n)[:60])
            return self.bad(n, "subscript of stack")
        if isinstance(n, ast.Name):
            if n.id == STACK:
                return self.bad(n, "bare stack object")
            if self.is_alias(n):
                self.stack_shapes.add("alias used as a value")
                return ("EAuxVal",)
            if n.id in self.locals:
                return ("EVar", self.var(n.id))
            return self.const(n)
        if not self.mentions(n):
            return self.pure(n)
        # mentions the stack somewhere below: only node kinds whose children are all
        # evaluated, once, left to right, may be decomposed
        if isinstance(n, ast.Call):
            if isinstance(n.func, ast.Name) and n.func.id in DYNAMIC_EVAL:
                return self.bad(n, "eval/exec over template data")
            if isinstance(n.func, ast.Attribute) and (self.is_stack(n.func.value) or self.is_alias(n.func.value)):
                return self.bad(n, "method of the stack object")
            kids = [n.func] + list(n.args) + [k.value for k in n.keywords]
            head = "call"
        elif isinstance(n, ast.BinOp):
            kids, head = [n.left, n.right], type(n.op).__name__
        elif isinstance(n, ast.UnaryOp):
            kids, head = [n.operand], type(n.op).__name__
        elif isinstance(n, ast.Compare) and len(n.ops) == 1:
            kids, head = [n.left, n.comparators[0]], type(n.ops[0]).__name__
        elif isinstance(n, ast.Subscript):
            kids, head = [n.value, n.slice], "subscript"
        elif isinstance(n, ast.Slice):
            kids, head = [x for x in (n.lower, n.upper, n.step) if x is not None], "slice"
        elif isinstance(n, (ast.List, ast.Tuple, ast.Set)):
            kids, head = list(n.elts), type(n).__name__
        elif isinstance(n, ast.Starred):
            kids, head = [n.value], "star"
        elif isinstance(n, ast.Attribute):
            if n.attr == "stacks":
                return self.bad(n, "ctx.stacks")
            kids, head = [n.value], "." + n.attr
        else:
            return self.bad(n, "conditionally evaluated expression over the stack")
        self.stack_shapes.add("nested in " + type(n).__name__)
        return self.app(head, [self.expr(k) for k in kids])

    def pure(self, n):
        """an expression that cannot reach the stack: an uninterpreted combination
        of the values of the template locals it reads"""
        if isinstance(n, ast.Constant) or (isinstance(n, ast.Attribute) and not any(
                isinstance(m, ast.Name) and m.id in self.locals for m in ast.walk(n))):
            return self.const(n)
        if isinstance(n, ast.Call) and not any(isinstance(a, ast.Starred) for a in n.args):
            fn = ast.unparse(n.func)[:40]
            if not any(isinstance(m, ast.Name) and m.id in self.locals for m in ast.walk(n.func)):
                return self.app(fn, [self.expr(a) for a in list(n.args) + [k.value for k in n.keywords]])
        seen = []
        for m in ast.walk(n):
            if isinstance(m, ast.Name) and m.id in self.locals and isinstance(m.ctx, ast.Load) and m.id not in seen:
                seen.append(m.id)
        if not seen:
            return self.const(n)
        return self.app("<" + type(n).__name__ + ">", [("EVar", self.var(v)) for v in seen])

    # -- conditions --------------------------------------------------------------
    def cond(self, n):
        if isinstance(n, ast.BoolOp):
            parts = [self.cond(v) for v in n.values]
            t = parts[-1]
            for p in reversed(parts[:-1]):
                t = ("CAnd" if isinstance(n.op, ast.And) else "COr", p, t)
            return t
        if isinstance(n, ast.UnaryOp) and isinstance(n.op, ast.Not):
            return ("CNot", self.cond(n.operand))
        if isinstance(n, ast.Compare) and len(n.ops) == 1:
            l, r, op = n.left, n.comparators[0], n.ops[0]
            opn = {ast.Gt: "OGt", ast.GtE: "OGe", ast.Lt: "OLt", ast.LtE: "OLe", ast.Eq: "OEq", ast.NotEq: "ONe"}.get(type(op))
            if opn:
                try:
                    c = G.int_const(r)
                except G.TranslatorError:
                    c = None
                if c is not None and c >= 0:
                    if (isinstance(l, ast.Call) and isinstance(l.func, ast.Name) and l.func.id == "len" and len(l.args) == 1
                            and not l.keywords and self.is_stack(l.args[0])):
                        self.counts["len"] += 1
                        self.stack_shapes.add("len(stack) <cmp> const")
                        # all comparisons with a constant reduce to `len(stack) > m`
                        if opn == "OGt":
                            return ("CLenGt", c)
                        if opn == "OGe":
                            return ("CLenGt", c - 1) if c > 0 else ("CNot", ("CNot", ("CExpr", ("EConst", "True"))))
                        if opn == "OLe":
                            return ("CNot", ("CLenGt", c))
                        if opn == "OLt":
                            return ("CNot", ("CLenGt", c - 1)) if c > 0 else ("CNot", ("CExpr", ("EConst", "True")))
                        return ("CExpr", ("EApp", ("EApp", ("EConst", opn), ("ELen", "Main")), self.const(r)))
                    ca = self.count_of(l)
                    if ca is not None and ca[0] == "CArity":
                        return ("CArityCmp", ca[1], opn, c)
        return ("CExpr", self.expr(n))

    # -- statements ----------------------------------------------------------------
    def opaque(self, st, why=""):
        m = self.mentions(st)
        if m:
            self.counts["opaque_stack"] += 1
            self.stack_shapes.add("SOpaque true: " + shape_of(st))
        self.shapes.add("OPAQUE " + shape_of(st))
        return ("SOpaque", m)

    def block(self, stmts):
        out = [self.stmt(s) for s in stmts]
        t = ("SSkip",)
        for s in reversed(out):
            t = s if t == ("SSkip",) else ("SSeq", s, t)
        return t

    @staticmethod
    def _has_jump(stmts):
        for s in stmts:
            for n in ast.walk(s):
                if isinstance(n, (ast.Break, ast.Continue, ast.Return)):
                    return True
        return False

    def stmt(self, st):
        self.shapes.add(shape_of(st))
        if isinstance(st, ast.Pass):
            return ("SSkip",)
        if isinstance(st, (ast.Break, ast.Continue, ast.Return)) and not (isinstance(st, ast.Return) and st.value is not None and self.mentions(st.value)):
            # leaves the template early: nothing after it runs; the stack stays as it is
            return ("SRaise",)
        if isinstance(st, ast.Expr):
            v = st.value
            if (isinstance(v, ast.Call) and isinstance(v.func, ast.Attribute) and self.is_stack(v.func.value)
                    and v.func.attr in ("append", "extend") and not v.keywords):
                if len(v.args) == 1 and not isinstance(v.args[0], ast.Starred):
                    if v.func.attr == "append":
                        self.counts["push"] += 1
                        return ("SPush", self.expr(v.args[0]))
                    self.counts["extend"] += 1
                    return ("SExtend", self.expr(v.args[0]))
                if len(v.args) == 0 and v.func.attr == "append":
                    # list.append() without argument: TypeError before anything happens
                    return ("SRaise",)
                return self.opaque(st)
            return ("SEval", self.expr(v))
        if isinstance(st, ast.Assign) and len(st.targets) == 1:
            tg, v = st.targets[0], st.value
            if isinstance(tg, ast.Name):
                if tg.id == STACK:
                    return self.opaque(st)
                if tg.id == self.alias:
                    self.counts["copy"] += 1
                    self.stack_shapes.add("alias = copy of stack")
                    return ("SCopyAux",)
                return ("SAssign", self.var(tg.id), self.expr(v))
            if isinstance(tg, (ast.Tuple, ast.List)) and all(isinstance(e, ast.Name) and e.id != STACK and e.id != self.alias for e in tg.elts):
                return ("SUnpack", [self.var(e.id) for e in tg.elts], self.expr(v))
            if not self.mentions(tg):
                # store into a context field / attribute / item that is not the stack
                return ("SEval", self.expr(v))
            return self.opaque(st)
        if isinstance(st, ast.AugAssign):
            if self.is_stack(st.target):
                if isinstance(st.op, ast.Add):
                    self.counts["extend"] += 1
                    return ("SExtend", self.expr(st.value))
                return self.opaque(st)
            if self.mentions(st.target):
                return self.opaque(st)
            if isinstance(st.target, ast.Name):
                x = self.var(st.target.id)
                return ("SAssign", x, ("EApp", ("EApp", ("EConst", type(st.op).__name__), ("EVar", x)), self.expr(st.value)))
            return ("SEval", self.expr(st.value))
        if isinstance(st, ast.If):
            return ("SIf", self.cond(st.test), self.block(st.body), self.block(st.orelse))
        if isinstance(st, ast.While) and not st.orelse and not self._has_jump(st.body):
            return ("SWhile", self.cond(st.test), self.block(st.body))
        return self.opaque(st)

    def translate(self):
        return self.block(self.tree.body)


def shape_of(node):
    """A coarse, value-free rendering of a node for the survey."""
    class Sh(ast.NodeTransformer):
        def visit_Constant(self, n):
            return ast.copy_location(ast.Name(id="K", ctx=ast.Load()), n)

        def visit_Name(self, n):
            if n.id in (STACK, "ctx", "pop", "wrapify", "len", "deep_copy", "list", "function_call", "index"):
                return n
            return ast.copy_location(ast.Name(id="v", ctx=n.ctx), n)

        def visit_Attribute(self, n):
            self.generic_visit(n)
            return n
    try:
        import copy
        t = Sh().visit(copy.deepcopy(node))
        ast.fix_missing_locations(t)
        s = ast.unparse(t)
    except Exception:  # noqa: BLE001
        s = type(node).__name__
    s = re.sub(r"\s+", " ", s)
    return s[:140]


# ----------------------------------------------------------------------------
# faithfulness of the tree: recount the primitives on the raw text
# ----------------------------------------------------------------------------

def text_counts(text):
    """Independent (regex) count of the stack primitives in the template text, with
    string literals blanked out first."""
    t = re.sub(r"'''.*?'''|\"\"\".*?\"\"\"|'(?:\\.|[^'\\])*'|\"(?:\\.|[^\"\\])*\"", "''", text, flags=re.S)
    return {
        "pop": len(re.findall(r"(?<![\w.])pop\(\s*stack\w*\s*,", t)),
        "wrap": len(re.findall(r"(?<![\w.])wrapify\(\s*stack\w*\s*,", t)),
        "push": len(re.findall(r"(?<![\w.])stack\.append\((?!\s*\))", t)),
        "extend": len(re.findall(r"(?<![\w.])stack\s*\+=|(?<![\w.])stack\.extend\(", t)),
        "mentions": len(re.findall(r"(?<![\w.])stack\b", t)),
    }


def tree_counts(t):
    """Count the primitives in a translated tree (tuples)."""
    c = {"pop": 0, "wrap": 0, "push": 0, "extend": 0, "bad": 0, "opaque_stack": 0}

    def go(x):
        if isinstance(x, tuple):
            h = x[0]
            if h in ("EPop", "EPopDyn"):
                c["pop"] += 1
            elif h in ("EWrap", "EWrapDyn"):
                c["wrap"] += 1
            elif h == "SPush":
                c["push"] += 1
            elif h == "SExtend":
                c["extend"] += 1
            elif h == "EBad":
                c["bad"] += 1
            elif h == "SOpaque" and x[1]:
                c["opaque_stack"] += 1
            for y in x[1:]:
                go(y)
        elif isinstance(x, list):
            for y in x:
                go(y)
    go(t)
    return c


# ----------------------------------------------------------------------------
# Coq rendering
# ----------------------------------------------------------------------------

def render(t):
    h = t[0]
    if h in ("SSkip", "SRaise", "SCopyAux", "EStackPop", "ECopy", "EAuxVal", "EFunCall", "EBad"):
        return h
    if h == "EConst" or h == "ERead":
        return f"({h} {G.cstr(t[1])})"
    if h == "EVar":
        return f"(EVar {t[1]})"
    if h == "EPeek":
        return f"(EPeek {t[1]})"
    if h in ("EPop", "EWrap"):
        c = t[2]
        cs = f"(CLen {c[1]})" if c[0] == "CLen" else f"({c[0]} {c[1]})"
        return f"({h} {t[1]} {cs})"
    if h in ("EPopDyn", "EWrapDyn"):
        return f"({h} {t[1]} {render(t[2])})"
    if h == "ELen":
        return f"(ELen {t[1]})"
    if h == "EApp":
        return f"(EApp {render(t[1])} {render(t[2])})"
    if h == "CExpr":
        return f"(CExpr {render(t[1])})"
    if h == "CLenGt":
        return f"(CLenGt {t[1]})"
    if h == "CArityCmp":
        return f"(CArityCmp {t[1]} {t[2]} {t[3]})"
    if h in ("CAnd", "COr"):
        return f"({h} {render(t[1])} {render(t[2])})"
    if h == "CNot":
        return f"(CNot {render(t[1])})"
    if h == "SSeq":
        return f"(SSeq {render(t[1])}\n        {render(t[2])})"
    if h in ("SEval", "SPush", "SExtend"):
        return f"({h} {render(t[1])})"
    if h == "SAssign":
        return f"(SAssign {t[1]} {render(t[2])})"
    if h == "SUnpack":
        return f"(SUnpack [{'; '.join(str(i) for i in t[1])}] {render(t[2])})"
    if h == "SIf":
        return f"(SIf {render(t[1])}\n        {render(t[2])}\n        {render(t[3])})"
    if h == "SWhile":
        return f"(SWhile {render(t[1])}\n        {render(t[2])})"
    if h == "SOpaque":
        return f"(SOpaque {G.cbool(t[1])})"
    raise G.TranslatorError(f"render: unknown node {h}")


def comment(s):
    return s.replace("(*", "( *").replace("*)", "* )").replace("\n", " \\n ").replace('"', "'")[:160]


HEADER = (
    "(* GENERATED by tools/gen_quirks.py from /repo's working tree. Do not edit. *)\n"
    "From Coq Require Import List NArith Bool.\n"
    "From Vy Require Import Model.Base Model.StackEffect.\n"
    "Import ListNotations.\n"
    "Open Scope nat_scope.\n"
)

FAILED = HEADER + (
    "(* the translator failed: %s *)\n"
    "Definition stack_templates_ok : bool := false.\n"
    "Definition element_templates : list tentry := [].\n"
    "Definition modifier_templates : list tentry := [].\n"
    "Definition c09_known : list str := [].\n"
)


def known_keys(root):
    """Keys excluded by /verif/known_findings.json: status known, property C09, class `C09:<key>`."""
    out = []
    try:
        with open(os.path.join(root, "known_findings.json"), encoding="utf-8") as f:
            findings = json.load(f)["findings"]
    except (OSError, ValueError, KeyError):
        return out
    for e in findings:
        if e.get("property") != "C09" or e.get("status") != "known":
            continue
        for c in [e.get("class")] + list(e.get("classes", [])):
            if isinstance(c, str) and c.startswith("C09:") and c[4:] not in out:
                out.append(c[4:])
    return out


def analyse(repo):
    elements, modifiers = G.read_elements(repo)
    entries = []
    shapes, stack_shapes = {}, {}
    for kind, rows in (("element", elements), ("modifier", modifiers)):
        for e in rows:
            rec = {"kind": kind, "key": e["key"], "arity": e.get("arity", 0), "text": e["text"], "line": e["line"]}
            try:
                tr = Tr(e["text"])
                tree = tr.translate()
                rec["tree"] = tree
                rec["alias"] = tr.alias
                rec["locals"] = tr.locals
                rec["tree_counts"] = tree_counts(tree)
                rec["walk_counts"] = tr.counts
                rec["text_counts"] = text_counts(e["text"])
                for s in tr.shapes:
                    shapes.setdefault(s, []).append(e["key"])
                for s in tr.stack_shapes:
                    stack_shapes.setdefault(s, []).append(e["key"])
            except SyntaxError as ex:
                # the template does not parse: nothing is known about it
                rec["tree"] = ("SOpaque", True)
                rec["syntax_error"] = str(ex)
                rec["tree_counts"] = tree_counts(rec["tree"])
                rec["text_counts"] = text_counts(e["text"])
            need_nat = rec["arity"]
            G.need(isinstance(need_nat, int) and need_nat >= 0, f"{e['key']}: negative arity")
            entries.append(rec)
    return {"entries": entries, "shapes": shapes, "stack_shapes": stack_shapes}


def emit(an, known):
    s = HEADER
    s += "Definition stack_templates_ok : bool := true.\n"
    for kind, name in (("element", "element_templates"), ("modifier", "modifier_templates")):
        rows = []
        for e in an["entries"]:
            if e["kind"] != kind:
                continue
            rows.append(
                "(* %s : %s *)\n   {| t_key := %s; t_modifier := %s; t_arity := %d; t_tmpl :=\n        %s |}"
                % (comment(e["key"]), comment(e["text"]), G.cstr(e["key"]), G.cbool(kind == "modifier"), e["arity"], render(e["tree"]))
            )
        s += f"Definition {name} : list tentry :=\n  " + G.clist(rows, "tentry") + ".\n"
    s += "(* keys excluded by /verif/known_findings.json (property C09, status known, class C09:<key>) *)\n"
    s += "Definition c09_known : list str :=\n  " + G.clist([G.cstr(k) for k in known], "str") + ".\n"
    return s


def jsonable(t):
    if isinstance(t, tuple):
        return [jsonable(x) for x in t]
    if isinstance(t, list):
        return [jsonable(x) for x in t]
    return t


def generate(repo, outdir):
    """-> (json tables, changed files).  A failure of this translator breaks C09's own
    obligations only (stack_templates_ok = false)."""
    root = os.path.dirname(os.path.dirname(os.path.abspath(outdir.rstrip("/")))) if os.path.basename(outdir.rstrip("/")) == "Gen" else os.path.dirname(os.path.dirname(os.path.abspath(__file__)))
    known = known_keys(root)
    try:
        an = analyse(repo)
        text = emit(an, known)
        tables = {
            "error": None, "known": known,
            "entries": [{k: (jsonable(v) if k == "tree" else v) for k, v in e.items()} for e in an["entries"]],
            "shapes": {k: len(v) for k, v in an["shapes"].items()},
            "stack_shapes": {k: v[:12] for k, v in an["stack_shapes"].items()},
        }
    except Exception as ex:  # noqa: BLE001
        tables = {"error": f"{type(ex).__name__}: {ex}", "known": known, "entries": [], "shapes": {}, "stack_shapes": {}}
        text = FAILED % comment(tables["error"])
    changed = []
    if G.write_if_changed(os.path.join(outdir, "StackTemplates.v"), text):
        changed.append("StackTemplates.v")
    return tables, changed


def pretty(t, ind=0):
    pad = "  " * ind
    if not isinstance(t, tuple):
        return pad + repr(t)
    if t[0] in ("SSeq",):
        return pretty(t[1], ind) + "\n" + pretty(t[2], ind)
    if t[0] in ("SIf", "SWhile"):
        s = pad + t[0] + " " + flat(t[1])
        for b in t[2:]:
            s += "\n" + pretty(b, ind + 1) + "\n" + pad + "--"
        return s
    return pad + flat(t)


def flat(t):
    if not isinstance(t, tuple):
        return repr(t)
    return "(" + " ".join([t[0]] + [flat(x) for x in t[1:]]) + ")" if len(t) > 1 else t[0]


if __name__ == "__main__":
    args = [a for a in sys.argv[1:] if not a.startswith("--")]
    repo = args[0] if args else "/repo"
    an = analyse(repo)
    if "--survey" in sys.argv:
        print("== statement shapes ==")
        for k, v in sorted(an["shapes"].items(), key=lambda kv: -len(kv[1])):
            print(f"{len(v):4d}  {k}   e.g. {v[:4]}")
        print("== uses of the stack ==")
        for k, v in sorted(an["stack_shapes"].items(), key=lambda kv: -len(kv[1])):
            print(f"{len(v):4d}  {k}   e.g. {v[:6]}")
        print("== hand-written templates and modifiers ==")
        for e in an["entries"]:
            if e["kind"] == "modifier" or not re.fullmatch(r"[\w, ]+ = pop\(stack, \d, ctx\); stack\.append\(.*\)", e["text"], flags=re.S):
                print(f"--- {e['kind']} {e['key']!r} arity {e['arity']} alias={e.get('alias')}\n{e['text']}\n  =>\n{pretty(e['tree'], 1)}")
    mism = [e["key"] for e in an["entries"] if any(e["tree_counts"][k] != e["text_counts"][k] for k in ("pop", "wrap", "push", "extend")) and not e["tree_counts"]["bad"] and not e["tree_counts"]["opaque_stack"]]
    print("entries:", len(an["entries"]), "count mismatches:", mism)
