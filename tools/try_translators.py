#!/usr/bin/env python3
"""Run every translator against a checkout with a patch applied, writing into a throw-away
directory: shows which translator obligation a rewrite of the source breaks.
  try_translators.py <patch.diff>"""
import os, shutil, subprocess, sys, tempfile, traceback
VERIF = os.path.dirname(os.path.dirname(os.path.abspath(__file__)))
sys.path.insert(0, os.path.join(VERIF, "tools"))
patch = os.path.abspath(sys.argv[1])
wt = tempfile.mkdtemp(prefix="trywt-", dir="/tmp")
os.rmdir(wt)
subprocess.run(["git", "-C", "/repo", "worktree", "add", "--detach", wt, "HEAD"], check=True, stdout=subprocess.DEVNULL, stderr=subprocess.DEVNULL)
gen = tempfile.mkdtemp(prefix="trygen-", dir="/tmp")
try:
    subprocess.run(["git", "apply", patch], cwd=wt, check=True)
    import gen_tables
    for name in ("gen_tables", "gen_dispatch", "gen_sinks", "gen_mutation", "gen_quirks", "gen_books"):
        mod = __import__(name)
        try:
            mod.generate(wt, gen)
            print(name, "ok")
        except gen_tables.TranslatorError as e:
            print(name, "FAIL-CLOSED:", e)
        except Exception as e:
            print(name, "CRASH:", type(e).__name__, e)
            traceback.print_exc()
finally:
    subprocess.run(["git", "-C", "/repo", "worktree", "remove", "--force", wt], stdout=subprocess.DEVNULL, stderr=subprocess.DEVNULL)
    shutil.rmtree(wt, ignore_errors=True); shutil.rmtree(gen, ignore_errors=True)
