#!/usr/bin/env python3
"""Run every translator against a checkout with a patch applied, writing into a throw-away
directory: shows which translator obligation a rewrite of the source breaks.
  try_translators.py <patch.diff>
For gen_tables it also prints the sections read semantically (_semantic: section -> why the syntactic
reader gave up), the sections that could not be read at all (_failed) and which generated files differ
from the unchanged tree's."""
import json, os, shutil, subprocess, sys, tempfile, traceback
VERIF = os.path.dirname(os.path.dirname(os.path.abspath(__file__)))
sys.path.insert(0, os.path.join(VERIF, "tools"))
patch = os.path.abspath(sys.argv[1])
wt = tempfile.mkdtemp(prefix="trywt-", dir="/tmp")
os.rmdir(wt)
subprocess.run(["git", "-C", "/repo", "worktree", "add", "--detach", wt, "HEAD"], check=True, stdout=subprocess.DEVNULL, stderr=subprocess.DEVNULL)
gen = tempfile.mkdtemp(prefix="trygen-", dir="/tmp")
try:
    subprocess.run(["git", "apply", patch], cwd=wt, check=True)
    import gen_tables
    for name in ("gen_tables", "gen_dispatch", "gen_sinks", "gen_mutation", "gen_quirks", "gen_books"):
        mod = __import__(name)
        try:
            res = mod.generate(wt, gen)
            print(name, "ok")
            if name == "gen_tables":
                # which sections were read from behaviour, which could not be read at all, and
                # whether the generated files are the unchanged tree's (base generated below)
                tables = res[0]
                print("  _semantic:", json.dumps(tables.get("_semantic", {}), ensure_ascii=False))
                print("  _failed:", json.dumps(tables.get("_failed", {}), ensure_ascii=False))
                base = tempfile.mkdtemp(prefix="trybase-", dir="/tmp")
                try:
                    gen_tables.generate("/repo", base)
                    diff = [f for f in ("Codepage.v", "ParserConsts.v", "Elements.v", "Yaml.v", "TemplateShapes.v")
                            if open(os.path.join(base, f), encoding="utf-8").read() != open(os.path.join(gen, f), encoding="utf-8").read()]
                    print("  generated files differing from the unchanged tree's:", diff or "none")
                finally:
                    shutil.rmtree(base, ignore_errors=True)
        except gen_tables.TranslatorError as e:
            print(name, "FAIL-CLOSED:", e)
        except Exception as e:
            print(name, "CRASH:", type(e).__name__, e)
            traceback.print_exc()
finally:
    subprocess.run(["git", "-C", "/repo", "worktree", "remove", "--force", wt], stdout=subprocess.DEVNULL, stderr=subprocess.DEVNULL)
    shutil.rmtree(wt, ignore_errors=True); shutil.rmtree(gen, ignore_errors=True)
