"""Reader for the subset of YAML used by documents/knowledge/elements.yaml.

A top-level sequence of mappings; per mapping we keep the scalar-valued keys at
indent 2 and, for a key whose value is a block sequence, the list of its items
(as raw scalars).  Nested mappings (e.g. `overloads:`) are kept as dicts of raw
scalars.  Standard library only (the interpreter that runs the repo has no PyYAML).
Fail-closed: a top-level line of another shape raises ValueError.
"""
from __future__ import annotations

import re


def _scalar(s: str):
    s = s.strip()
    if not s:
        return None
    if s[0] == '"':
        out = []
        i = 1
        while i < len(s):
            c = s[i]
            if c == "\\":
                i += 1
                e = s[i]
                out.append({"n": "\n", "t": "\t", "\\": "\\", '"': '"', "0": "\0", "/": "/"}.get(e, "\\" + e))
            elif c == '"':
                rest = s[i + 1:].strip()
                if rest and not rest.startswith("#"):
                    raise ValueError(f"trailing text after double-quoted scalar: {s!r}")
                return "".join(out)
            else:
                out.append(c)
            i += 1
        raise ValueError(f"unterminated double-quoted scalar: {s!r}")
    if s[0] == "'":
        out = []
        i = 1
        while i < len(s):
            c = s[i]
            if c == "'":
                if i + 1 < len(s) and s[i + 1] == "'":
                    out.append("'")
                    i += 2
                    continue
                rest = s[i + 1:].strip()
                if rest and not rest.startswith("#"):
                    raise ValueError(f"trailing text after single-quoted scalar: {s!r}")
                return "".join(out)
            out.append(c)
            i += 1
        raise ValueError(f"unterminated single-quoted scalar: {s!r}")
    # plain scalar: cut a trailing comment
    m = re.search(r"\s#", s)
    if m:
        s = s[: m.start()].rstrip()
    return s


_KEY = re.compile(r"^([A-Za-z_][A-Za-z0-9_\-]*):(?:\s+(.*)|\s*)$")


def load_entries(text: str):
    entries = []
    cur = None
    cur_key = None  # key at indent 2 whose block value we are inside
    for lineno, raw in enumerate(text.split("\n"), 1):
        line = raw.rstrip()
        if not line.strip() or line.lstrip().startswith("#"):
            continue
        indent = len(line) - len(line.lstrip(" "))
        body = line.strip()
        if indent == 0:
            if not body.startswith("- "):
                raise ValueError(f"line {lineno}: top-level sequence item expected: {line!r}")
            m = _KEY.match(body[2:])
            if not m:
                raise ValueError(f"line {lineno}: key expected: {line!r}")
            cur = {"__line__": lineno}
            entries.append(cur)
            cur[m.group(1)] = _scalar(m.group(2) or "")
            cur_key = None
        elif indent == 2 and cur is not None:
            m = _KEY.match(body)
            if not m:
                raise ValueError(f"line {lineno}: key expected at indent 2: {line!r}")
            k, v = m.group(1), m.group(2)
            if v is None or v.strip() == "":
                cur[k] = None
                cur_key = k
            else:
                cur[k] = _scalar(v)
                cur_key = None
        else:
            if cur is None or cur_key is None:
                # continuation of a multi-line plain scalar: ignore
                continue
            if body.startswith("- ") or body == "-":
                if cur[cur_key] is None:
                    cur[cur_key] = []
                if isinstance(cur[cur_key], list):
                    cur[cur_key].append(body[2:].strip())
            else:
                m = re.match(r"^([^:]+):\s*(.*)$", body)
                if m:
                    if cur[cur_key] is None:
                        cur[cur_key] = {}
                    if isinstance(cur[cur_key], dict):
                        cur[cur_key][m.group(1).strip()] = m.group(2).strip()
    return entries
