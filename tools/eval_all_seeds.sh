#!/bin/sh
# evaluates every seed under /tmp/seed-C*/out/* that has no result yet (3 at a time)
mkdir -p /verif/seeded/results
ls -d /tmp/seed-C*/out/[12] 2>/dev/null | while read d; do
  tag=$(echo "$d" | sed 's#/tmp/seed-\(C[0-9]*[a-z]*\)/out/.*#\1#'); prop=$(echo "$tag" | sed 's/[a-z]*$//'); n=$(basename "$d"); name="$tag-$n"
  [ -f "$d/patch.diff" ] && [ -f "$d/demo.py" ] || continue
  [ -f "/verif/seeded/results/$name.json" ] && continue
  echo "$d $prop $name"
done | xargs -P 3 -L 1 sh -c 'cd /verif && timeout 3000 /venv/bin/python tools/eval_seeds.py full "$0" "$1" "$2" > "/verif/seeded/results/$2.json" 2>&1; echo "done $2"'
