#!/usr/bin/env python3
"""The semantic readers of tools/gen_tables.py alone reproduce the translator's output.

  test_semantic_readers.py [<repo>]            unchanged tree: exit 0 iff
      1. gen_tables.generate() reads every section syntactically (no _semantic, no _failed), and
      2. with EVERY syntactic reader replaced by one that raises, generate() reads every
         section semantically and writes byte-identical Codepage.v ParserConsts.v Elements.v
         Yaml.v TemplateShapes.v.
  test_semantic_readers.py --patch <patch.diff> [--expect same|differ-or-fail]
      applies the patch to a scratch worktree of /repo and runs generate() there with the
      syntactic readers disabled; prints per section whether the semantic reader failed
      closed and which generated files differ from the unchanged tree's.  With --expect,
      exit 0 iff the outcome is the expected one.
"""
import filecmp
import json
import os
import shutil
import subprocess
import sys
import tempfile

VERIF = os.path.dirname(os.path.dirname(os.path.abspath(__file__)))
sys.path.insert(0, os.path.join(VERIF, "tools"))
import gen_tables as G  # noqa: E402

FILES = ("Codepage.v", "ParserConsts.v", "Elements.v", "Yaml.v", "TemplateShapes.v")
SYNTACTIC = ("read_encoding", "read_parser_consts", "read_parser_quirks", "read_lexer_consts", "read_regex_classes",
             "read_elements_syntactic")
SECTIONS = ("encoding", "parser", "parser_quirks", "lexer", "regex", "elements")


def disable_syntactic():
    saved = {n: getattr(G, n) for n in SYNTACTIC}

    def make(n):
        def raiser(repo):
            raise G.TranslatorError(f"{n} disabled by test_semantic_readers.py")
        return raiser
    for n in SYNTACTIC:
        setattr(G, n, make(n))
    return saved


def restore(saved):
    for n, f in saved.items():
        setattr(G, n, f)


def generate_both(repo, keep=None):
    """(syntactic dir, tables), (semantic-only dir, tables or error)"""
    d1 = tempfile.mkdtemp(prefix="semtest-syn-", dir="/tmp")
    d2 = tempfile.mkdtemp(prefix="semtest-sem-", dir="/tmp")
    try:
        t1, _ = G.generate(repo, d1)
    except G.TranslatorError as e:
        t1 = str(e)
    saved = disable_syntactic()
    try:
        try:
            t2, _ = G.generate(repo, d2)
        except G.TranslatorError as e:
            t2 = str(e)
    finally:
        restore(saved)
    return (d1, t1), (d2, t2)


def semantic_only(repo, stale_from):
    """generate() with the syntactic readers disabled; sections whose semantic reader fails
    keep the values of `stale_from` (the unchanged tree's tables.json) and are listed in _failed"""
    d = tempfile.mkdtemp(prefix="semtest-sem-", dir="/tmp")
    shutil.copy(os.path.join(stale_from, "tables.json"), os.path.join(d, "tables.json"))
    saved = disable_syntactic()
    try:
        t, _ = G.generate(repo, d)
    finally:
        restore(saved)
    return d, t


def differing(d1, d2):
    return [f for f in FILES if not filecmp.cmp(os.path.join(d1, f), os.path.join(d2, f), shallow=False)]


def main_unchanged(repo):
    (d1, t1), (d2, t2) = generate_both(repo)
    ok = True
    try:
        if not isinstance(t1, dict):
            print("FAIL: syntactic generate() raised:", t1)
            return 1
        if t1["_semantic"] or t1["_failed"]:
            print("FAIL: on this tree the syntactic readers should read everything:", t1["_semantic"], t1["_failed"])
            ok = False
        if not isinstance(t2, dict):
            print("FAIL: semantic-only generate() raised:", t2)
            return 1
        missing = [s for s in SECTIONS if s not in t2["_semantic"]]
        if missing or t2["_failed"]:
            print("FAIL: sections not read semantically:", missing, "failed:", t2["_failed"])
            ok = False
        diff = differing(d1, d2)
        if diff:
            print("FAIL: semantic-only output differs in", diff)
            for f in diff:
                a = open(os.path.join(d1, f), encoding="utf-8").read().splitlines()
                b = open(os.path.join(d2, f), encoding="utf-8").read().splitlines()
                for i, (x, y) in enumerate(zip(a, b)):
                    if x != y:
                        print(f"  {f}:{i+1}\n   syntactic: {x[:200]}\n   semantic : {y[:200]}")
                        break
            ok = False
        # tables.json: everything but what only the syntactic reader knows (source lines, AST hash, ladder positions)
        j1 = json.load(open(os.path.join(d1, "tables.json"), encoding="utf-8"))
        j2 = json.load(open(os.path.join(d2, "tables.json"), encoding="utf-8"))

        def strip(j):
            j = json.loads(json.dumps(j))
            j["lexer"].pop("fn_hash", None)
            for e in j["elements"] + j["modifiers"]:
                e.pop("line", None)
            return j
        if strip(j1) != strip(j2):
            bad = [k for k in j1 if strip(j1).get(k) != strip(j2).get(k)]
            print("FAIL: tables.json differs beyond fn_hash / line in", bad)
            ok = False
        for s in SECTIONS:
            print(f"  {s:14} semantic == syntactic   notes: {t2['_semantic_notes'].get(s)}")
        print("OK: semantic readers alone reproduce byte-identical", ", ".join(FILES) if ok else "FAILED")
        return 0 if ok else 1
    finally:
        shutil.rmtree(d1, ignore_errors=True)
        shutil.rmtree(d2, ignore_errors=True)


def main_patch(patch, expect):
    base = tempfile.mkdtemp(prefix="semtest-base-", dir="/tmp")
    wt = tempfile.mkdtemp(prefix="semtest-wt-", dir="/tmp")
    os.rmdir(wt)
    subprocess.run(["git", "-C", "/repo", "worktree", "add", "--detach", wt, "HEAD"], check=True,
                   stdout=subprocess.DEVNULL, stderr=subprocess.DEVNULL, stdin=subprocess.DEVNULL)
    d = None
    try:
        G.generate("/repo", base)
        subprocess.run(["git", "apply", os.path.abspath(patch)], cwd=wt, check=True, stdin=subprocess.DEVNULL)
        d, t = semantic_only(wt, base)
        diff = differing(base, d)
        res = {"patch": patch, "failed_closed": t["_failed"], "semantic": sorted(t["_semantic"]), "files_differing": diff}
        # which constants differ
        if diff:
            changed = []
            for f in diff:
                a = open(os.path.join(base, f), encoding="utf-8").read().splitlines()
                b = open(os.path.join(d, f), encoding="utf-8").read().splitlines()
                for x, y in zip(a, b):
                    if x != y:
                        changed.append(f"{f}: {x[:90]}  ->  {y[:90]}")
                if len(a) != len(b):
                    changed.append(f"{f}: {len(a)} -> {len(b)} lines")
            res["first_differences"] = changed[:6]
        print(json.dumps(res, ensure_ascii=False, indent=1))
        outcome = "differ-or-fail" if (diff or t["_failed"]) else "same"
        print("OUTCOME:", outcome)
        if expect is None:
            return 0
        return 0 if outcome == expect else 1
    finally:
        subprocess.run(["git", "-C", "/repo", "worktree", "remove", "--force", wt], stdout=subprocess.DEVNULL,
                       stderr=subprocess.DEVNULL, stdin=subprocess.DEVNULL)
        shutil.rmtree(wt, ignore_errors=True)
        shutil.rmtree(base, ignore_errors=True)
        if d:
            shutil.rmtree(d, ignore_errors=True)


if __name__ == "__main__":
    args = sys.argv[1:]
    if args and args[0] == "--patch":
        expect = args[args.index("--expect") + 1] if "--expect" in args else None
        sys.exit(main_patch(args[1], expect))
    sys.exit(main_unchanged(args[0] if args else "/repo"))
