#!/bin/sh
# evaluates every behaviour-preserving refactoring under /tmp/benign-C*/out/[12] that has no result yet
ls -d /tmp/benign-C*/out/[12] 2>/dev/null | while read d; do
  prop=$(echo "$d" | sed 's#/tmp/benign-\(C[0-9]*\)/out/.*#\1#'); n=$(basename "$d"); name="$prop-r$n"
  [ -f "$d/patch.diff" ] || continue
  [ -f "/verif/benign/$name/result.json" ] && continue
  echo "$d $prop $name"
done | xargs -P 3 -L 1 sh -c 'cd /verif && timeout 3600 /venv/bin/python tools/eval_seeds.py benign "$0" "$1" "$2" > "/tmp/benign-$2.log" 2>&1; echo "done $2"'
