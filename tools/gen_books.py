"""Translator for C12: every site in /repo/vyxal/*.py (outside the structure templates of
transpile.py, which Model/Books.v mirrors) that mutates one of the four bookkeeping lists
ctx.context_values / ctx.inputs / ctx.stacks / ctx.function_stack, and whether any element
or modifier template text does.  Emits coq/Gen/BookFacts.v.  Fail-closed."""
from __future__ import annotations

import ast
import os

BOOKS = ("context_values", "inputs", "stacks", "function_stack")
MUTATORS = ("append", "pop", "extend", "insert", "clear", "remove", "reverse", "sort")


def cstr(s):
    return "[" + "; ".join(str(ord(c)) for c in s) + "]%N" if s else "([] : list N)"


def book_of(node):
    """ctx.<book> or self.<book> attribute access -> book name"""
    if isinstance(node, ast.Attribute) and node.attr in BOOKS and isinstance(node.value, ast.Name):
        return node.attr
    return None


def mutation_sites(tree):
    """(function name, book, kind) for each mutation of a book in a module"""
    sites = []

    def visit(fn_name, node):
        for n in ast.walk(node):
            if isinstance(n, ast.Call) and isinstance(n.func, ast.Attribute) and n.func.attr in MUTATORS:
                b = book_of(n.func.value)
                if b:
                    sites.append((fn_name, b, n.func.attr))
            elif isinstance(n, (ast.Assign, ast.AugAssign, ast.Delete)):
                targets = n.targets if isinstance(n, (ast.Assign, ast.Delete)) else [n.target]
                for t in targets:
                    # whole-list rebinding or slice/delete: a structural change
                    if book_of(t):
                        sites.append((fn_name, book_of(t), "rebind"))
                    elif isinstance(t, ast.Subscript) and book_of(t.value) and isinstance(t.slice, ast.Slice):
                        sites.append((fn_name, book_of(t.value), "slice-store"))
                    elif isinstance(n, ast.Delete) and isinstance(t, ast.Subscript) and book_of(t.value):
                        sites.append((fn_name, book_of(t.value), "delete"))

    for top in tree.body:
        if isinstance(top, (ast.FunctionDef, ast.AsyncFunctionDef)):
            visit(top.name, top)
        elif isinstance(top, ast.ClassDef):
            for m in top.body:
                if isinstance(m, (ast.FunctionDef, ast.AsyncFunctionDef)):
                    visit(top.name + "." + m.name, m)
    return sites


def output_balanced(tree):
    """LazyList.output: exactly one `ctx.stacks.append(..)` and one `ctx.stacks.pop()` as
    top-level statements of the method, the pop being the last statement (so every normal
    completion passes through it)."""
    for top in tree.body:
        if isinstance(top, ast.ClassDef) and top.name == "LazyList":
            for m in top.body:
                if isinstance(m, ast.FunctionDef) and m.name == "output":
                    def is_call(st, attr):
                        return (isinstance(st, ast.Expr) and isinstance(st.value, ast.Call)
                                and isinstance(st.value.func, ast.Attribute) and st.value.func.attr == attr
                                and book_of(st.value.func.value) == "stacks")
                    apps = [i for i, st in enumerate(m.body) if is_call(st, "append")]
                    pops = [i for i, st in enumerate(m.body) if is_call(st, "pop")]
                    inner = [s for s in mutation_sites(ast.Module(body=[m], type_ignores=[]))]
                    def own_nodes(node):
                        # statements of the method itself: a nested def / lambda / class runs in
                        # its own frame, its `return` does not leave `output`
                        for ch in ast.iter_child_nodes(node):
                            if isinstance(ch, (ast.FunctionDef, ast.AsyncFunctionDef, ast.Lambda, ast.ClassDef)):
                                continue
                            yield ch
                            yield from own_nodes(ch)
                    no_return = not any(isinstance(n, ast.Return) for n in own_nodes(m))
                    return (len(apps) == 1 and len(pops) == 1 and pops[0] == len(m.body) - 1
                            and len(inner) == 2 and no_return)
    return False


def generate(repo, outdir):
    import gen_tables
    sites = []
    for fn in sorted(os.listdir(os.path.join(repo, "vyxal"))):
        if not fn.endswith(".py") or fn in ("dictionary.py",):
            continue
        with open(os.path.join(repo, "vyxal", fn), encoding="utf-8") as f:
            tree = ast.parse(f.read())
        for (func, book, kind) in mutation_sites(tree):
            sites.append((fn, func, book, kind))
        if fn == "LazyList.py":
            out_bal = output_balanced(tree)
    # templates
    elements, modifiers = gen_tables.read_elements(repo)
    tmpl_sites = []
    for e in elements + modifiers:
        try:
            t = ast.parse(e["text"])
        except SyntaxError:
            continue
        for (_, book, kind) in mutation_sites(ast.Module(body=[ast.FunctionDef(name="t", args=ast.arguments(posonlyargs=[], args=[], kwonlyargs=[], kw_defaults=[], defaults=[]), body=t.body, decorator_list=[])], type_ignores=[])):
            tmpl_sites.append((e["key"], book, kind))
    s = ("(* GENERATED by tools/gen_books.py from /repo's working tree. Do not edit. *)\n"
         "From Coq Require Import List NArith Bool.\nImport ListNotations.\nOpen Scope N_scope.\n")
    s += "(* (file, function, list, operation) of every structural mutation of a bookkeeping list outside the element table *)\n"
    s += "Definition book_sites : list (list N * list N * list N * list N) :=\n  [" + ";\n   ".join(
        f"({cstr(a)}, {cstr(b)}, {cstr(c)}, {cstr(d)})" for a, b, c, d in sites) + "].\n"
    s += "(* (template key, list, operation) of every such mutation inside an element / modifier template *)\n"
    s += "Definition template_book_sites : list (list N * list N * list N) :=\n  [" + ";\n   ".join(
        f"({cstr(a)}, {cstr(b)}, {cstr(c)})" for a, b, c in tmpl_sites) + "].\n"
    s += f"Definition lazylist_output_balanced : bool := {'true' if out_bal else 'false'}.\n"
    path = os.path.join(outdir, "BookFacts.v")
    old = open(path, encoding="utf-8").read() if os.path.exists(path) else None
    changed = []
    if old != s:
        with open(path, "w", encoding="utf-8") as f:
            f.write(s)
        changed = ["BookFacts.v"]
    return {"sites": sites, "template_sites": tmpl_sites, "output_balanced": out_bal}, changed
