#!/usr/bin/env python3
"""Evaluate seeded breaking changes against the checks.

  eval_seeds.py confirm <seed_dir> <prop>      # patch applies, tests pass, demo fails with / passes without
  eval_seeds.py run <seed_dir> <prop> [tier]   # run ./check <prop> on a scratch checkout with the patch
  eval_seeds.py keep <seed_dir> <prop> <name>  # copy a confirmed seed to /verif/seeded/<name>/

Everything happens in scratch worktrees of /repo under /tmp and in a scratch COPY of
/verif (so the shared coq/Gen of the real /verif is never regenerated from a patched
tree); both are removed afterwards.  /repo itself is never modified."""
from __future__ import annotations

import json
import os
import shutil
import subprocess
import sys
import time

VERIF = os.path.dirname(os.path.dirname(os.path.abspath(__file__)))


def sh(cmd, cwd=None, env=None, timeout=3000):
    p = subprocess.run(cmd, cwd=cwd, env=env, shell=isinstance(cmd, str), stdin=subprocess.DEVNULL,
                       stdout=subprocess.PIPE, stderr=subprocess.STDOUT, text=True, timeout=timeout)
    return p.returncode, p.stdout


def worktree(tag):
    d = f"/tmp/evalwt-{tag}-{os.getpid()}"
    sh(["git", "-C", "/repo", "worktree", "remove", "--force", d])
    rc, out = sh(["git", "-C", "/repo", "worktree", "add", "--detach", d, "HEAD"])
    if rc:
        raise RuntimeError(out)
    return d


def drop(d):
    sh(["git", "-C", "/repo", "worktree", "remove", "--force", d])
    shutil.rmtree(d, ignore_errors=True)
    sh(["git", "-C", "/repo", "worktree", "prune"])


def confirm(seed, prop):
    res = {"seed": seed, "property": prop}
    wt = worktree("c")
    try:
        rc, out = sh(["git", "apply", os.path.join(seed, "patch.diff")], cwd=wt)
        res["applies"] = rc == 0
        if rc:
            res["apply_output"] = out[-500:]
            return res
        env = dict(os.environ, PYTHONPATH=wt, PYTHONDONTWRITEBYTECODE="1", PYTHONHASHSEED="0")
        rc, out = sh(["/venv/bin/python", "-m", "pytest", "-q", "-p", "no:cacheprovider", "-x"], cwd=wt, env=env)
        res["tests_pass_with_change"] = rc == 0
        res["tests_tail"] = [l for l in out.splitlines() if "passed" in l or "failed" in l][-1:]
        rc, out = sh(["/venv/bin/python", os.path.join(seed, "demo.py")], cwd=wt, env=env, timeout=900)
        res["demo_with_change"] = rc
        res["demo_output"] = out[-600:]
        sh(["git", "checkout", "--", "."], cwd=wt)
        rc, out = sh(["/venv/bin/python", os.path.join(seed, "demo.py")], cwd=wt, env=env, timeout=900)
        res["demo_without_change"] = rc
        res["confirmed"] = bool(res["tests_pass_with_change"] and res["demo_with_change"] == 1 and res["demo_without_change"] == 0)
    finally:
        drop(wt)
    return res


def verif_copy(tag):
    d = f"/tmp/verif-eval-{tag}-{os.getpid()}"
    shutil.rmtree(d, ignore_errors=True)
    os.makedirs(d)
    for name in ("check", "vlib", "props", "tools", "coq", "known_findings.json", "properties.jsonl", "corpus"):
        src = os.path.join(VERIF, name)
        if os.path.isdir(src):
            shutil.copytree(src, os.path.join(d, name), symlinks=True)
        elif os.path.exists(src):
            shutil.copy2(src, os.path.join(d, name))
    # the copy must be the COMMITTED machinery: files a builder is editing right now are
    # put back to HEAD, files not yet tracked are dropped (their stale .vo are rebuilt by make)
    rc, out = sh(["git", "-C", VERIF, "status", "--porcelain", "--untracked-files=all"])
    for line in out.splitlines():
        st_, path = line[:2], line[3:].strip().strip('"')
        tgt = os.path.join(d, path)
        if not os.path.exists(tgt):
            continue
        if st_ == "??":
            if path.endswith((".v", ".py")):
                os.remove(tgt)
        elif "M" in st_:
            rc2, old = sh(["git", "-C", VERIF, "show", "HEAD:" + path])
            if rc2 == 0:
                with open(tgt, "w", encoding="utf-8") as f:
                    f.write(old)
    return d


def run(seed, prop, tier="quick"):
    res = {"seed": seed, "property": prop, "tier": tier}
    wt = worktree("r")
    vc = verif_copy("r")
    try:
        rc, out = sh(["git", "apply", os.path.join(seed, "patch.diff")], cwd=wt)
        if rc:
            res["applies"] = False
            return res
        env = dict(os.environ, VERIF_REPO=wt, VERIF_NPROC=os.environ.get("VERIF_NPROC", "8"))
        t = time.time()
        rc, out = sh([os.path.join(vc, "check"), prop, "--tier", tier], cwd=vc, env=env, timeout=3000)
        res["wall_s"] = round(time.time() - t, 1)
        res["exit"] = rc
        lines = [l for l in out.splitlines() if l.startswith(("VIOLATION", "KNOWN-FINDING", "OK "))]
        res["lines"] = [l[:300] for l in lines]
        res["detected"] = rc == 1 and any(l.startswith("VIOLATION") for l in lines)
        for l in lines:
            if l.startswith("VIOLATION"):
                path = l.split("replay=")[1].split()[0]
                try:
                    with open(path, encoding="utf-8") as f:
                        rep = json.load(f)
                    res["replay_kind"] = rep.get("kind")
                    res["failing_input"] = rep.get("failure", {}).get("input") if rep.get("failure") else None
                    res["failure_what"] = (rep.get("failure") or {}).get("what", "")[:300]
                    res["proof_obligations_broken"] = [b["what"][:200] for b in rep.get("broken", [])]
                    res["correspondence_disagreements"] = [d.get("component") for d in rep.get("disagreements", []) if d][:5]
                except Exception as e:  # noqa: BLE001
                    res["replay_error"] = repr(e)
        if not res["detected"]:
            res["output_tail"] = out[-1500:]
    finally:
        drop(wt)
        shutil.rmtree(vc, ignore_errors=True)
    return res


def keep(seed, prop, name, meta_extra):
    d = os.path.join(VERIF, "seeded", name)
    os.makedirs(d, exist_ok=True)
    for f in ("patch.diff", "demo.py"):
        if os.path.abspath(os.path.join(seed, f)) != os.path.abspath(os.path.join(d, f)):
            shutil.copy2(os.path.join(seed, f), os.path.join(d, f))
    note = open(os.path.join(seed, "note.txt"), encoding="utf-8").read().strip() if os.path.exists(os.path.join(seed, "note.txt")) else ""
    meta = {"breaks_property": prop, "needs_to_manifest": note}
    if not note and os.path.exists(os.path.join(d, "meta.json")):
        try:
            meta["needs_to_manifest"] = json.load(open(os.path.join(d, "meta.json"), encoding="utf-8")).get("needs_to_manifest", "")
        except Exception:  # noqa: BLE001
            pass
    meta.update(meta_extra)
    with open(os.path.join(d, "meta.json"), "w", encoding="utf-8") as f:
        json.dump(meta, f, ensure_ascii=False, indent=1)
    return d


def benign(seed, prop, name, tier="quick"):
    """A behaviour-preserving refactoring: tests and its own differential script pass; the check should
    exit 0, or at most report `no-failing-input-found` (a broken translator / proof obligation)."""
    res = {"seed": seed, "property": prop, "name": name}
    wt = worktree("b")
    try:
        rc, out = sh(["git", "apply", os.path.join(seed, "patch.diff")], cwd=wt)
        res["applies"] = rc == 0
        if rc:
            res["apply_output"] = out[-500:]
            return res
        env = dict(os.environ, PYTHONPATH=wt, PYTHONDONTWRITEBYTECODE="1", PYTHONHASHSEED="0")
        rc, out = sh(["/venv/bin/python", "-m", "pytest", "-q", "-p", "no:cacheprovider", "-x"], cwd=wt, env=env)
        res["tests_pass_with_change"] = rc == 0
        if os.path.exists(os.path.join(seed, "equiv.py")):
            rc, out = sh(["/venv/bin/python", os.path.join(seed, "equiv.py")], cwd=wt, env=env, timeout=1800)
            res["equiv_exit"] = rc
            res["equiv_tail"] = out[-300:]
    finally:
        drop(wt)
    r = run(seed, prop, tier)
    res["check"] = {k: r.get(k) for k in ("exit", "lines", "replay_kind", "failing_input", "failure_what",
                                          "proof_obligations_broken", "correspondence_disagreements", "wall_s", "output_tail")}
    viol = [l for l in r.get("lines", []) if l.startswith("VIOLATION")]
    res["outcome"] = ("quiet" if r.get("exit") == 0 and not viol else
                      "no-failing-input-found" if viol and all(l.rstrip().endswith("no-failing-input-found") for l in viol) else
                      "false-alarm-with-input")
    d = os.path.join(VERIF, "benign", name)
    os.makedirs(d, exist_ok=True)
    for f in ("patch.diff", "equiv.py", "note.txt"):
        if os.path.exists(os.path.join(seed, f)):
            shutil.copy2(os.path.join(seed, f), os.path.join(d, f))
    with open(os.path.join(d, "result.json"), "w", encoding="utf-8") as f:
        json.dump(res, f, ensure_ascii=False, indent=1)
    return res


if __name__ == "__main__":
    cmd = sys.argv[1]
    if cmd == "benign":
        print(json.dumps(benign(sys.argv[2], sys.argv[3], sys.argv[4]), ensure_ascii=False, indent=1))
        sys.exit(0)
    if cmd == "confirm":
        print(json.dumps(confirm(sys.argv[2], sys.argv[3]), ensure_ascii=False, indent=1))
    elif cmd == "run":
        print(json.dumps(run(sys.argv[2], sys.argv[3], sys.argv[4] if len(sys.argv) > 4 else "quick"), ensure_ascii=False, indent=1))
    elif cmd == "full":
        seed, prop, name = sys.argv[2], sys.argv[3], sys.argv[4]
        c = confirm(seed, prop)
        out = {"confirm": c}
        if c.get("confirmed"):
            r = run(seed, prop)
            out["run"] = r
            keep(seed, prop, name, {
                "confirmed": {k: c[k] for k in ("tests_pass_with_change", "demo_with_change", "demo_without_change")},
                "what_was_run": f"tools/eval_seeds.py full: git apply on a scratch worktree of /repo HEAD, pytest (392 pass), demo.py exits 1 with / 0 without the change, then `VERIF_REPO=<worktree> ./check {prop} --tier quick` on a scratch copy of /verif",
                "check_result": {k: r.get(k) for k in ("detected", "exit", "lines", "replay_kind", "failing_input", "failure_what", "proof_obligations_broken", "correspondence_disagreements", "wall_s")},
            })
        print(json.dumps(out, ensure_ascii=False, indent=1))
