#!/usr/bin/env python3
"""Writes /verif/MANIFEST.json from the table below (kept in one place so the file
always validates).  Run after adding or removing a check."""
import json
import os

ROOT = os.path.dirname(os.path.dirname(os.path.abspath(__file__)))

CHECKS = {
    # id: (technique, level text, level note, design ref)
    "C20": (
        "Coq theorems over tables regenerated from /repo (code page bijection for all lengths; 397-entry table sweep by vm_compute) + lexer/encoding model-vs-implementation correspondence evaluated in Coq",
        "Machine-checked: the code page is 256 distinct characters and byte<->text conversion is the identity in both directions for strings of every length (general lemma on duplicate-free lists); every key of the regenerated element, modifier, structure and documentation tables satisfies key_ok/doc_ok (finite, exhaustive). The lexer used inside key_ok is a hand model tied to lexer.tokenise by differential runs.",
        "Trusted: coqc kernel + vm_compute; translator tools/gen_tables.py (Python ast, fail-closed); the lexer model's agreement with lexer.tokenise is tested (all strings <= 3/4 over 24 lexical symbols, all keys, random), not proved. Known table/documentation drift is excluded by name via known_findings.json -> Gen/Known.v.",
        "DESIGN.md 7/C20",
    ),
}

NOT_YET = {}

def main():
    props = [json.loads(l)["id"] for l in open(os.path.join(ROOT, "properties.jsonl"), encoding="utf-8")]
    checks = []
    for pid in props:
        if pid not in CHECKS:
            continue
        tech, text, note, ref = CHECKS[pid]
        checks.append({
            "property_id": pid,
            "quick_cmd": f"./check {pid} --tier quick",
            "thorough_cmd": f"./check {pid} --tier thorough",
            "evidence_file": f"/verif/evidence/{pid}.json",
            "replay_cmd_template": f"./check {pid} --replay {{path}}",
            "engine": "coq-model+correspondence",
            "level_claimed": {"category": "proof", "text": text, "design_ref": ref},
            "level_note": note,
            "technique": tech,
        })
    na = [{"property_id": p, "reason": NOT_YET.get(p, "check not built yet in this round (planned, see DESIGN.md section 10); not claimed until its theorem and correspondence exist")}
          for p in props if p not in CHECKS]
    m = {
        "version": 1,
        "setup_cmd": "./check --setup",
        "hooks": {
            "guard": "VYXAL2_VERIF",
            "enable": "no source hooks are needed: the harness observes execute_vyxal's locals through sys.setprofile and captures stdout; ./check exports VYXAL2_VERIF=1 for uniformity",
            "baseline_off_cmd": "cd /repo && /venv/bin/python -m pytest -ra -q -p no:cacheprovider --timeout=900 --continue-on-collection-errors",
            "source_commits": [],
            "add_only": True,
        },
        "engines": [{
            "name": "coq-model+correspondence", "path": "/verif/coq",
            "serves_properties": [c["property_id"] for c in checks],
            "kind_free_text": "Coq 8.16 development (Model/ hand-written executable models, Gen/ regenerated from /repo on every run, Proofs/, Properties/ one file per property) + Python harness (vlib/, props/) that regenerates, rebuilds, evaluates the model inside Coq on the cases the implementation ran, and searches the implementation for failing inputs",
        }],
        "checks": checks,
        "notes": "Every check: regenerate coq/Gen from /repo's working tree -> make Properties/Cxx.vo (full .vo) -> Print Assumptions -> correspondence -> oracle search -> evidence. See DESIGN.md.",
        "not_applicable": na,
    }
    with open(os.path.join(ROOT, "MANIFEST.json"), "w", encoding="utf-8") as f:
        json.dump(m, f, ensure_ascii=False, indent=1)
    print("MANIFEST.json:", len(checks), "checks,", len(na), "not claimed")

if __name__ == "__main__":
    main()
