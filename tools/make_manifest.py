#!/usr/bin/env python3
"""Writes /verif/MANIFEST.json from the table below (kept in one place so the file
always validates).  Run after adding or removing a check."""
import json
import os

ROOT = os.path.dirname(os.path.dirname(os.path.abspath(__file__)))

CHECKS = {
    # id: (technique, level text, level note, design ref)
    "C20": (
        "Coq theorems over tables regenerated from /repo (code page bijection for all lengths; 397-entry table sweep by vm_compute) + lexer/encoding model-vs-implementation correspondence evaluated in Coq",
        "Machine-checked: the code page is 256 distinct characters and byte<->text conversion is the identity in both directions for strings of every length (general lemma on duplicate-free lists); every key of the regenerated element, modifier, structure and documentation tables satisfies key_ok/doc_ok (finite, exhaustive). The lexer used inside key_ok is a hand model tied to lexer.tokenise by differential runs.",
        "Trusted: coqc kernel + vm_compute; translator tools/gen_tables.py (Python ast, fail-closed); the lexer model's agreement with lexer.tokenise is tested (all strings <= 3/4 over 24 lexical symbols, all keys, random), not proved. Known table/documentation drift is excluded by name via known_findings.json -> Gen/Known.v.",
        "DESIGN.md 7/C20",
    ),
}

CHECKS["C04"] = (
    "Coq induction over fuel and token lists: any sequence of trailing closer tokens is absorbed by parse (theorem for all programs, unbounded nesting) + lexer state-machine lemma for unterminated strings; lexer/parser model-vs-implementation correspondence evaluated in Coq",
    "Machine-checked for every token list and every sequence of trailing closer tokens: if the closed program parses, the truncated one parses to the same tree (C04_tokens; literally equal when no raw function-call name contains a closer, C04_tokens_exact), an unterminated string/compressed literal lexes as if closed, and closers after code lex as closer tokens (C04_source, C04_source_string). The models' constants and token-kind guards are regenerated from parse.py/lexer.py on every run.",
    "Trusted: coqc kernel; translator; that the hand-written lexer/parser models equal lexer.tokenise / parse.parse is tested (exhaustive token strings <= 4/5 over 14 structural symbols, generated programs and all their truncations, incl. error outcomes), not proved.",
    "DESIGN.md 7/C04",
)
CHECKS["C03"] = (
    "Coq two-sided simulation of parse on token lists that differ only in literal payloads (induction, unbounded) + per-literal-kind lexer lemmas; proof obligation on the token-kind guard flags read from parse.py's AST; correspondence evaluated in Coq",
    "Machine-checked: all nine syntax decisions of parse.py carry a token-kind guard (regenerated flags, C03_guards_in_source); a literal token is always a plain statement and always appended to the current branch; branch grouping is independent of literal payloads with no side condition; the whole parse tree (structures, branches, operands, names, errors) is independent of literal payloads when no literal sits in a name/parameter/arity branch; per literal kind (delimited, escaped character, two-character string, code-page number, comment) the lexer yields the payload as one token's value for payloads of any length.",
    "Trusted: coqc kernel; translator (guard flags, constants); model = implementation is tested by correspondence (payload substitution sources, generated programs), not proved. Back-quoted payloads containing backslash/delimiter are escape sequences (C06).",
    "DESIGN.md 7/C03",
)

CHECKS["C07"] = (
    "Coq theorems over Q (exactness, field identities, Euclidean division laws, expression trees by induction) about a model of the six number overloads + model-vs-implementation correspondence evaluated in Coq with the result's Python type canonicalised",
    "Machine-checked for all rationals: each modelled overload equals the mathematical operation, division/floor-division by zero give 0, a == (a//b)*b + a%b with the sign conventions, floor division is the integer floor, (a/b)*b == a and the other field identities, and every expression tree over + - * / evaluates to its rational value (unbounded depth). The model is tied to elements.add/subtract/multiply/divide/modulo/integer_divide by exhaustive small boxes in both operand representations (Python int and sympy numbers) and sampled large operands.",
    "Trusted: coqc kernel; that sympy's Rational implements Q and that the element functions equal the model is tested (exhaustive |p|<=12,q<=6 / |p|<=16,q<=8 plus sampled to 10^6/10^4), not proved; modulo by zero raises ZeroDivisionError (outside the property's text, recorded in evidence).",
    "DESIGN.md 7/C07",
)
CHECKS["C17"] = (
    "Coq theorems about naive reference definitions (primality <-> Znumtheory.prime, factorisation, divisors, gcd/lcm, factorial, Pascal, totient, next prime, positional notation, inverse pairs) + model-vs-implementation correspondence evaluated in Coq",
    "Machine-checked for every integer in the stated domains: the reference definitions are the textbook functions (41 theorems). The sympy-backed elements are tied to the reference definitions by exhaustive comparison inside Coq (0..300 / 0..3000, dyads <= 40 / 120) and by an oracle with naive Python definitions (0..2000 / 0..20000, pairs <= 100 / 300, structured n to 10^12).",
    "Trusted: coqc kernel; agreement of the sympy-backed implementations with the reference definitions is tested, not proved; inputs where the textbook function is undefined (prime_factors 0, divisors 0, totient 0) are excluded by hypothesis and listed in evidence; next_prime's fuel bound (a prime in (n, 2n+2]) is a stated hypothesis (Bertrand not proved); prime factor ORDER is unspecified and compared as a multiset.",
    "DESIGN.md 7/C17",
)

CHECKS["C02"] = (
    "Coq induction over program trees on a block-structure model of the emitted Python (py_wf: non-empty suites, else after if, break/continue in a loop and not across a def, return in a def) + proof obligation over template shapes regenerated with Python's ast + Layout.v, an executable reading of Python's line and block structure from TEXT, with theorems tying the exact text model to the block model (C02_layout_tr, all constructors, any dictionary) and the end-to-end C02_text_accepted for all program texts + correspondences evaluated in Coq (exact text, block skeleton of ast.parse, accepts(text) vs compile() on the implementation's texts and on mutants)",
    "Machine-checked: every regenerated element/modifier template is a valid context-free statement sequence (C02_templates, finite sweep); for every program tree of any depth the emitted code satisfies Python's context conditions when early exits stand where ctx_ok allows (C02_context_conditions), in particular every program without X/x. For every program text that parses with no early exit in a while condition, Layout accepts the emitted text (C02_text_accepted; C02_layout_templates checks the translator's ast-derived template shapes against Coq's own reading of the template text). That the text model is what transpile() emits and that Layout's verdict is CPython's is checked on every run.",
    "Trusted: coqc kernel; translator (template shapes via Python ast/compile); 'the text Layout accepts compiles' is measured on every case (no full Python grammar in Coq: expression syntax inside a line is the translator's compile() flag per template); model = implementation by correspondence. Known findings: exit in a while condition; a backslash pair that is an incomplete Python escape.",
    "DESIGN.md 7/C02",
)
CHECKS["C08"] = (
    "Coq theorems (vec_complete d -> elementwise (elem d base), unbounded nesting, for every scalar base) + vm_compute sweep over dispatch skeletons regenerated from elements.py's AST + vectorise/vy_zip model-vs-implementation correspondence in Coq",
    "Machine-checked: any element whose regenerated dispatch tree is vec_complete acts element-wise (list -> map, list/scalar, scalar/list, list/list position-wise with zero fill, recursively, eager and lazy alike) for every scalar overload function; all 88 curated elements' regenerated trees are vec_complete (C08_table). Type combinations for which elements.yaml itself documents a list overload are excluded and listed in the evidence.",
    "Trusted: coqc kernel; translator tools/gen_dispatch.py (fail-closed: unrecognised shapes become Other); that Python's dict dispatch on vy_type behaves as the tree interpreter and that vectorise/vy_zip equal the model is tested (correspondence + oracle over flat/nested/lazy lists), not proved.",
    "DESIGN.md 7/C08",
)
CHECKS["C11"] = (
    "Coq invariants by induction over operation histories (fold_left, unbounded) on a model of Context.inputs/get_input/pop + history and program correspondence evaluated in Coq",
    "Machine-checked for every well-scoped history: the j-th value served from the program's inputs (explicit reads at any depth + implicit reads at top level) is input j mod n on one shared cursor; with no inputs every read is 0; inside a call implicit reads cycle over that call's arguments and leave the top cursor untouched; a pop of k from j items performs k-j implicit reads. The same three statements are proved for the input functions of the C01 evaluators' state (C11_core_top / _empty / _inner over Model/Values.v), so the two models of get_input / pop agree on the property.",
    "Trusted: coqc kernel; stdin empty (reads return 0) is an assumption of the model; model = helpers.get_input/pop/templates is tested on exhaustive and random histories against the real Context and on programs through execute_vyxal, not proved.",
    "DESIGN.md 7/C11",
)
CHECKS["C13"] = (
    "Coq refinement proof: every LazyList method (heap of cells with lazy-view copies) returns what the same observation returns on the denoted plain list and preserves every cell's denotation; lifted to all histories by induction + correspondence evaluated in Coq",
    "Machine-checked for every finite source and every history of observations (index with wrap-around, negative index, all slice forms, len, iteration, bool, contains, eq, count, reversed, listify, next, deep copies of copies): outputs = spec on the source, denotations never change (C13_step, C13, C13_denotation_kept). Oracle-only additions: every slice on every partially generated cache; printed text after observations = printed text of the plain list.",
    "Trusted: coqc kernel; model = vyxal/LazyList.py + helpers.deep_copy is tested (all histories of length 2/3 over 28-30 parametrised operations on 40 sources, random to length 12; length 4 against a plain-list oracle), not proved; CPython generator/tee behaviour is modelled. Slice step 0 is outside (a plain list raises).",
    "DESIGN.md 7/C13",
)
CHECKS["C14"] = (
    "Coq theorems on pull-machine models of the lazy transformations (exact pull counts and outputs for all n by induction; composition theorem for linear bounds) + measured pull counts and outputs compared with the model in Coq",
    "Machine-checked for all n: each modelled transformation needs exactly/at most the stated linear number of source pulls for n outputs and outputs the mathematical transformation of the prefix; bounds compose through any number of stages. PARTIAL by nature: that the running Python generators terminate and are that lazy is observed (instrumented infinite source, watchdog), n <= 12/40.",
    "Trusted: coqc kernel; the pull machine as a model of CPython generator scheduling; measured counts agree exactly with the model on every catalogued stage and random compositions of 2-3 (tested, not proved). group_consecutive only for sources whose neighbours differ.",
    "DESIGN.md 7/C14",
)

CHECKS["C05"] = (
    "Coq theorems on the lexer state machine (number scanning/splitting for all lengths) and on the literal lowering text, value theorem under two named hypotheses about sympy + lexer/transpiler correspondence in Coq + value oracle against fractions.Fraction",
    "Machine-checked for digit strings of every length: a literal lexes as exactly one NUMBER token (leading 0 stands alone, a second point starts a new number), its text reaches sympy unchanged (Rational for decimals, nsimplify for integers), and GIVEN exact conversion by sympy the pushed value is digits/10^k. The two conversion hypotheses are measured on every run (all integers to 20000 / ~4*10^5 and sampled to 10^60, random decimals up to 25+18 digits).",
    "Trusted: coqc kernel; sympy.Rational(str) and sympy.nsimplify(str) are outside the model (hypotheses of C05_value_*), the oracle measures them; known finding: nsimplify returns a nearby algebraic number for some integers (1164, ...), which cannot be repaired without editing the pinned test.",
    "DESIGN.md 7/C05",
)
CHECKS["C06"] = (
    "Coq induction over strings on models of quotify, the lexer string mode, the transpiler's re-escaping and Python's double-quoted literal decoding + correspondence in Coq (py_dq_decode vs ast.literal_eval) + end-to-end oracle",
    "Machine-checked for every string of quotable characters (in particular every code-page string, any length): tokenise(quotify s) is one STRING token whose re-escaped text decodes to s, the decoder never meets an escape outside \\\\ \\\" \\n \\r; with compression on, printable-ASCII strings pass through dictionary decompression unchanged for any dictionary; a back-quoted literal pushes its contents in any code context.",
    "Trusted: coqc kernel; Python's decoding of a double-quoted literal restricted to raw characters and the four escapes (checked against ast.literal_eval); model = elements.quotify / lexer / transpile by correspondence; NUL and surrogates (not in the code page) are outside.",
    "DESIGN.md 7/C06",
)
CHECKS["C15"] = (
    "Coq theorems on positional codecs for unbounded n and lengths (digits and duplicate-free alphabets both directions, to_base with the float-derived exponent as a parameter incl. the exact failure condition, lexer delimiter lemmas, number/string compression, dictionary DP parametric in the dictionary) + correspondence in Coq + end-to-end oracle",
    "Machine-checked: from/to digits and alphabets are mutually inverse with digits inside the base; compress_num/compress_str text never contains its delimiter so the lexer returns exactly the payload and decompression returns the value (n>=1; non-empty [a-z ] strings not starting with a space); optimal_compress output decompresses to s and is no longer than the plain literal for any sound dictionary; to_base round-trips iff b^(e+1) > n. PARTIAL on to_base: the float log that yields e is outside the model and measured (no under-estimate on any sample).",
    "Trusted: coqc kernel; translator (alphabets); math.log / nsimplify exponent is a hypothesis measured per run; dictionary lookup soundness enumerated per run; model = implementation by correspondence (11 functions). Known finding: øc on the empty string.",
    "DESIGN.md 7/C15",
)
CHECKS["C16"] = (
    "Coq theorems (88 laws for all lists by induction: Sorted/Permutation, NoDup, folds, index laws, enumeration cardinalities and membership) about reference definitions mirroring the builtins' output order + correspondence in Coq + independent itertools oracle",
    "Machine-checked for every list: the reference definitions of 33 list builtins satisfy their defining laws (sort, reverse, uniquify, flatten, sum/product/max/min, cumulative sums, deltas, zip, transpose, interleave/uninterleave, wrap, prefixes/suffixes, sublists, powerset, permutations, cartesian product incl. the implementation's anti-diagonal order, count/contains/find, group consecutive, counts, grade up/down, head/tail). The Python builtins are tied to the definitions by exhaustive comparison in Coq (all integer lists <= 3 / <= 5 over -2..3) and ~40 independent executable laws.",
    "Trusted: coqc kernel; agreement of the Python functions with the reference definitions is tested, not proved. Known findings: product([]) = 0, permutations([]) = [''].",
    "DESIGN.md 7/C16",
)

CHECKS["C09"] = (
    "Coq soundness theorem of an abstract interpreter over stack-template trees (frame_ok t k -> prefix literally unchanged, for every behaviour of the uninterpreted element functions) + vm_compute sweep over the trees regenerated from every template + sentinel sweep oracle",
    "Machine-checked: any template accepted by frame_ok at arity k leaves every entry below the top k untouched and unread, whatever the element functions return or raise and whatever retain_popped/reverse_flag are (C09_sound, C09_local); 597 regenerated instances (397 elements at their declared arity, 8 modifiers at operand arities 0..4) are frame_ok or belong to the documented whole-stack family (C09_table_partial). PARTIAL for function bodies: they are uninterpreted in the theorem; an allow-list scan of `.stacks` users and a sentinel sweep of every key on two prefixes cover them dynamically.",
    "Trusted: coqc kernel; translator tools/gen_quirks.py (template text -> stack-program tree, fail-closed, pops/pushes recounted on the raw text); element function bodies are opaque (dynamic sweep only). Known findings: ¨ẇ (undocumented wrap-n reaches below its declared arity), øḋ (eval with `stack` in scope).",
    "DESIGN.md 7/C09",
)
CHECKS["C10"] = (
    "Coq least-fixed-point closure over a mutation summary regenerated from every function body (proved monotone, fixed, least, sound for the summary semantics) + heap-model theorems for copy-on-duplicate built on the C13 refinement + snapshot oracle",
    "Machine-checked: the may-mutate closure computed in Coq on the regenerated call graph is the least fixed point and an unflagged function performs no mutation in any execution of the summary semantics at any call depth; every element/modifier outside the derived suspect list is unflagged (finite sweep); after `:`/`D`/`Ḃ`/`¾` any sequence of non-mutating operations on one reference leaves the other's denotation unchanged (eager and lazy, from C13). PARTIAL: the closure is about the translator's summary of the bodies, not the bodies; statically flagged functions are judged one by one by the dynamic oracle (listed in evidence).",
    "Trusted: coqc kernel; translator tools/gen_mutation.py (alias and mutation-site summary, fail-closed per function); dynamic calls through user lambdas are not edges; snapshot oracle over every element and copy programs. Known finding: multiply stores stored_arity on a function argument.",
    "DESIGN.md 7/C10",
)
CHECKS["C12"] = (
    "Coq: balance analysis on the effect tree of the emitted code proved sound for a nondeterministic semantics (any branch, any number of loop iterations) and proved to accept the code of every program tree (induction, unbounded nesting) + obligation over book-mutation sites re-read from the sources + effect-tree correspondence via Python's ast",
    "Machine-checked: for every program tree whose early exits stand where exit_ok allows, the emitted code is balanced on context_values / inputs / stacks / function_stack after the whole program and after every top-level statement, every def body (lambda, function, list item) returns at its entry depth, and every run of balanced code under the nondeterministic semantics ends normally at the initial depths. Nothing outside the structure templates changes those depths (regenerated facts: no template touches them, LazyList.output pops what it pushes).",
    "Trusted: coqc kernel; translator tools/gen_books.py; that the effect tree describes transpile()'s output is checked with Python's ast on every case, exact text by correspondence; CPython's execution of the block tree is modelled by exec1/execl; exceptions and non-termination are outside 'finishes normally'; depth oracle runs every prefix of top-level statements.",
    "DESIGN.md 7/C12",
)
CHECKS["C18"] = (
    "Coq induction over program trees on the exact text model: every chunk of the emitted text is fixed vocabulary or a payload-carrying shape whose payload is a well-terminated literal body or an identifier over [A-Za-z0-9_] + proof obligations on the regex classes re-read from the re.sub calls + exact-text correspondence + ast whitelist oracle",
    "Machine-checked for every source string and both lexer modes (C18): if transpile returns text, every line of it is either a member of the fixed vocabulary (transpile.py's lines and the regenerated template lines) or one of the listed shapes whose program-derived part is a string body accepted by the double-quote automaton, digits, a repr from the generated table, or an identifier over ASCII letters, digits and underscore; escape_string makes ANY string a safe body (no assumption on the dictionary); each sanitising class is an obligation on the regenerated character class.",
    "Trusted: coqc kernel; translator (regex classes, template lines, repr table for code-page characters); text model = transpile() by exact-text correspondence on adversarial payloads at every injection position; C18_string: the re-escaped text is exactly the body of one well-terminated literal for every string (carriage return is escaped since the repair).",
    "DESIGN.md 7/C18",
)

CHECKS["C19"] = (
    "Coq: sound syntactic guard check over path conditions + vm_compute sweep over the sink table regenerated from every call site of print/exec/eval/compile/input/exit in vyxal/*.py + effect-trace models of vy_eval, vy_print, function_call, vy_exec, execute_vyxal with theorems + audit-hook oracle",
    "Machine-checked: a path condition accepted by guard_excludes_online cannot be true when online whatever the opaque atoms are; every in-scope sink of the regenerated table that is not on the explicit, justified exclusion list is so guarded (C19_sinks); `.online` is only assigned from online_mode; in the effect-trace models an online run contains no host print, no Python eval/exec of user text, every printed value reaches the output record, and every failure (transpile, body, flag post-processing, implicit output) ends in ErrRecord; Exit. PARTIAL: host stdout and interpreter audit events are observed on runs, not proved.",
    "Trusted: coqc kernel; translator tools/gen_sinks.py (path conditions ignore early returns, fail-closed; getattr/importlib indirection and sinks inside sympy/stdlib are not seen); 16 in-scope unguarded sinks are listed one by one with a justification (exec of the transpiled program, eval of pycode(<number>), repl, ...); out-of-scope observations (øḋ, ∆e, flag f, ¨U) are reported in evidence, not judged.",
    "DESIGN.md 7/C19",
)

CHECKS["C01"] = (
    "Coq compiler-correctness theorem: an execution model of the emitted code (Machine.v, one state change per emitted line of Transpile.tr) equals the documented semantics written as a direct big-step evaluator (RefSem.v) for every core program, fuel, state and flag set (induction on fuel and tree, one simulation lemma per construct) + three ties to the implementation evaluated in Coq (Machine vs real runs, RefSem vs real runs, exact text)",
    "Machine-checked for every core program of any nesting depth, every input list and the nine flag sets: exec = eval on stack, printed text, variables, register, input cursors, errors and out-of-fuel (C01_compile_correct, C01_compile_correct_in_def, C01 for whole programs incl. start-up and implicit output), both evaluators leave the interpreter context balanced, and the regenerated template text/arity of every core element and modifier is the one the machine gives meaning to (C01_templates). Core: integer and string literals, 94 stack/arithmetic/logic/comparison/list elements with their number / string / list overloads, variables and function definitions anywhere (Python's scoping of the emitted names, closures with their cells, recursion by name), if/for/while, the four lambdas and the shorthand lambdas, named functions with numeric/named/* parameters, list literals, modifiers v & ~ ß ƒ ɖ ₌ ₍, early exits X / x (break, continue, early return, recursion; C01_early_exits).",
    "Trusted: coqc kernel; CPython executing the emitted lines as Machine.v says is the principal modelled-not-verified link (checked by Machine-vs-implementation runs over generated programs x inputs x flags); element semantics are shared by both evaluators (their fidelity matters only for the ties); outside the core: the ghost variable and _ names, X in a while condition, string literals with escapes or non-ASCII text; lazily applied bodies with side effects are not compared (EStuck). Known finding: a function value as if-condition / for-iterable is not called first (Structures.md).",
    "DESIGN.md 7/C01",
)

NOT_YET = {}

def main():
    props = [json.loads(l)["id"] for l in open(os.path.join(ROOT, "properties.jsonl"), encoding="utf-8")]
    checks = []
    for pid in props:
        if pid not in CHECKS:
            continue
        tech, text, note, ref = CHECKS[pid]
        checks.append({
            "property_id": pid,
            "quick_cmd": f"./check {pid} --tier quick",
            "thorough_cmd": f"./check {pid} --tier thorough",
            "evidence_file": f"/verif/evidence/{pid}.json",
            "replay_cmd_template": f"./check {pid} --replay {{path}}",
            "engine": "coq-model+correspondence",
            "level_claimed": {"category": "proof", "text": text, "design_ref": ref},
            "level_note": note,
            "technique": tech,
        })
    na = [{"property_id": p, "reason": NOT_YET.get(p, "check not built yet in this round (planned, see DESIGN.md section 10); not claimed until its theorem and correspondence exist")}
          for p in props if p not in CHECKS]
    m = {
        "version": 1,
        "setup_cmd": "./check --setup",
        "hooks": {
            "guard": "VYXAL2_VERIF",
            "enable": "no source hooks are needed: the harness observes execute_vyxal's locals through sys.setprofile and captures stdout; ./check exports VYXAL2_VERIF=1 for uniformity",
            "baseline_off_cmd": "cd /repo && /venv/bin/python -m pytest -ra -q -p no:cacheprovider --timeout=900 --continue-on-collection-errors",
            "source_commits": [],
            "add_only": True,
        },
        "engines": [{
            "name": "coq-model+correspondence", "path": "/verif/coq",
            "serves_properties": [c["property_id"] for c in checks],
            "kind_free_text": "Coq 8.16 development (Model/ hand-written executable models, Gen/ regenerated from /repo on every run, Proofs/, Properties/ one file per property) + Python harness (vlib/, props/) that regenerates, rebuilds, evaluates the model inside Coq on the cases the implementation ran, and searches the implementation for failing inputs",
        }],
        "checks": checks,
        "notes": "Every check: regenerate coq/Gen from /repo's working tree -> make Properties/Cxx.vo (full .vo) -> Print Assumptions -> correspondence -> oracle search -> evidence. See DESIGN.md.",
        "not_applicable": na,
    }
    with open(os.path.join(ROOT, "MANIFEST.json"), "w", encoding="utf-8") as f:
        json.dump(m, f, ensure_ascii=False, indent=1)
    print("MANIFEST.json:", len(checks), "checks,", len(na), "not claimed")

if __name__ == "__main__":
    main()
