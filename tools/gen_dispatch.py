#!/usr/bin/env python3
"""Translator for property C08: regenerates coq/Gen/Dispatch.v from the element
functions of /repo/vyxal/elements.py (Python `ast` only; nothing is imported).

For every table entry backed by a module-level function it emits the function's
*dispatch skeleton*: a decision structure over the vy_type tags of the arguments
(NUMBER, str, list, LazyList, function) whose leaves are

  Scalar            the path ends in code of the element itself (opaque),
  Vec explicit      the path ends in `return vectorise(<the same function>, <the same
                    arguments in the same order>[, ctx=...][, explicit=<const>])`,
  Other             anything else (fail-closed).

Soundness only depends on `Vec` leaves being right, so every doubt (another function,
swapped / missing / rebound arguments, vectorise not in tail position, unknown key or
condition shape, unstructured control flow) becomes `Other` or an opaque condition,
both of which make `vec_complete` false for the paths concerned.

Also emitted: the curated table = elements.yaml `vectorise: true` entries backed by
a function of arity 1 or 2 that calls `vectorise` at all (so an element whose
fallback is no longer recognised stays in the table and fails there);
documented-vectorising entries outside it are
returned (with the reason) in the json so the check reports them as covered by the
dynamic search only.  And `doc_overloads`: the `overloads:` keys elements.yaml
documents for the curated elements (num/str/lst/fun/any), from which the model
derives which list-taking overloads are documented ones.

Standard library only.  Never raises on an unrecognised function: fail-closed per entry.
"""
from __future__ import annotations

import ast
import json
import os
import sys

sys.path.insert(0, os.path.dirname(os.path.abspath(__file__)))
import gen_tables as G  # noqa: E402

TAG_OF_NAME = {"NUMBER_TYPE": "TNum", "str": "TStr", "list": "TList", "LazyList": "TLazy"}
DATA_TAGS = ["TNum", "TStr", "TList", "TLazy"]
ALL_TAGS = DATA_TAGS + ["TFun"]


def atom_tag(node):
    """A key / comparand atom -> tag name, or None."""
    if isinstance(node, ast.Name) and node.id in TAG_OF_NAME:
        return TAG_OF_NAME[node.id]
    if (isinstance(node, ast.Attribute) and node.attr == "FunctionType"
            and isinstance(node.value, ast.Name) and node.value.id == "types"):
        return "TFun"
    return None


def leaf(kind, why="", explicit=False):
    return {"k": "leaf", "leaf": kind, "explicit": bool(explicit), "why": why}


def mentions(node, name):
    return any(isinstance(n, ast.Name) and n.id == name for n in ast.walk(node))


def contains_exit(node):
    """Return / yield somewhere in the statement, not counting nested defs/lambdas."""
    stack = [node]
    while stack:
        n = stack.pop()
        if isinstance(n, (ast.Return, ast.Yield, ast.YieldFrom)):
            return True
        for c in ast.iter_child_nodes(n):
            if isinstance(c, (ast.FunctionDef, ast.AsyncFunctionDef, ast.Lambda)):
                continue
            stack.append(c)
    return False


def stored_names(node):
    out = set()
    for n in ast.walk(node):
        if isinstance(n, ast.Name) and isinstance(n.ctx, (ast.Store, ast.Del)):
            out.add(n.id)
        elif isinstance(n, (ast.FunctionDef, ast.AsyncFunctionDef, ast.ClassDef)):
            out.add(n.name)
        elif isinstance(n, ast.arg):
            pass
        elif isinstance(n, (ast.Global, ast.Nonlocal)):
            out.update(n.names)
        elif isinstance(n, (ast.Import, ast.ImportFrom)):
            for a in n.names:
                out.add((a.asname or a.name).split(".")[0])
    return out


class Env:
    """What is known at a program point: which names still hold the original
    arguments, and which names hold a vy_type(...) result of which arguments."""

    def __init__(self, args):
        self.clean = set(args)          # parameter names never rebound so far
        self.ts = {}                    # name -> (tuple of arg indices, simple)

    def copy(self):
        e = Env(())
        e.clean = set(self.clean)
        e.ts = dict(self.ts)
        return e

    def kill(self, names):
        for n in names:
            self.clean.discard(n)
            self.ts.pop(n, None)


class FnTranslator:
    def __init__(self, fn: ast.FunctionDef, arity: int, lazy_call_ok: bool, src: str):
        self.fn = fn
        self.name = fn.name
        self.arity = arity
        self.lazy_call_ok = lazy_call_ok
        self.src = src
        self.opaque = []                # source text of opaque condition atoms
        self.flags = []
        self.notes = []
        a = fn.args
        self.problem = None
        if a.vararg or a.kwarg or a.posonlyargs:
            self.problem = "star / positional-only parameters"
        names = [x.arg for x in a.args] + [x.arg for x in a.kwonlyargs]
        pos = [x.arg for x in a.args if x.arg != "ctx"]
        ndef = len(a.defaults)
        defaults = dict(zip([x.arg for x in a.args][len(a.args) - ndef:], a.defaults))
        if "ctx" not in names:
            self.notes.append("no ctx parameter")
        if len(pos) < arity:
            self.problem = f"function takes {len(pos)} arguments, table arity is {arity}"
        self.args = pos[:arity]
        self.none_params = []
        for p in pos[arity:]:
            d = defaults.get(p)
            if isinstance(d, ast.Constant) and d.value is None:
                self.none_params.append(p)
            else:
                self.problem = f"extra parameter {p} without a None default"

    # -- type expressions ---------------------------------------------------
    def vy_type_call(self, node, env):
        """vy_type(a[, b[, c]][, simple=<const>]) over clean arguments ->
        (tuple of arg indices, simple) or None."""
        if not (isinstance(node, ast.Call) and isinstance(node.func, ast.Name) and node.func.id == "vy_type"):
            return None
        simple = False
        for kw in node.keywords:
            if kw.arg == "simple" and isinstance(kw.value, ast.Constant) and isinstance(kw.value.value, bool):
                simple = kw.value.value
            else:
                return None
        idx = []
        for x in node.args:
            if not (isinstance(x, ast.Name) and x.id in self.args and x.id in env.clean):
                return None
            idx.append(self.args.index(x.id))
        if not idx or len(idx) > 3 or len(set(idx)) != len(idx):
            return None
        return tuple(idx), simple

    def type_expr(self, node, env):
        """-> (tuple of arg indices, simple, is_tuple) for an expression denoting the
        type (tuple) of clean arguments; None when not recognised."""
        r = self.vy_type_call(node, env)
        if r is not None:
            return r[0], r[1], len(r[0]) > 1
        if isinstance(node, ast.Name) and node.id in env.ts:
            idx, simple = env.ts[node.id]
            return idx, simple, len(idx) > 1
        if (isinstance(node, ast.Subscript) and isinstance(node.value, ast.Name) and node.value.id in env.ts
                and isinstance(node.slice, ast.Constant) and isinstance(node.slice.value, int)
                and not isinstance(node.slice.value, bool)):
            idx, simple = env.ts[node.value.id]
            i = node.slice.value
            if len(idx) > 1 and 0 <= i < len(idx):
                return (idx[i],), simple, False
            return None
        if (isinstance(node, ast.Call) and isinstance(node.func, ast.Name) and node.func.id == "type"
                and len(node.args) == 1 and not node.keywords and isinstance(node.args[0], ast.Name)
                and node.args[0].id in self.args and node.args[0].id in env.clean):
            return (self.args.index(node.args[0].id),), False, False
        return None

    def pats_for(self, idx, tags):
        p = ["PAny"] * self.arity
        for i, t in zip(idx, tags):
            p[i] = t
        return p

    def match_cond(self, te, rhs):
        """type-expr == rhs  ->  cond or None.  `type(x)` compares exact classes, for
        which only str/list/LazyList/FunctionType coincide with the vy_type tag."""
        idx, simple, is_tuple = te
        if is_tuple:
            if not (isinstance(rhs, ast.Tuple) and len(rhs.elts) == len(idx)):
                return None
            tags = [atom_tag(e) for e in rhs.elts]
        else:
            tags = [atom_tag(rhs)]
        if any(t is None for t in tags):
            return None
        return {"k": "match", "simple": simple, "pats": self.pats_for(idx, tags)}

    # -- conditions ----------------------------------------------------------
    def opaque_cond(self, node):
        txt = ast.get_source_segment(self.src, node) or ast.dump(node)[:80]
        self.opaque.append(" ".join(txt.split())[:120])
        return {"k": "opaque", "id": len(self.opaque) - 1}

    def cond(self, node, env):
        if isinstance(node, ast.BoolOp):
            cs = [self.cond(v, env) for v in node.values]
            k = "and" if isinstance(node.op, ast.And) else "or"
            out = cs[0]
            for c in cs[1:]:
                out = {"k": k, "a": out, "b": c}
            return out
        if isinstance(node, ast.UnaryOp) and isinstance(node.op, ast.Not):
            return {"k": "not", "a": self.cond(node.operand, env)}
        if isinstance(node, ast.Compare) and len(node.ops) == 1:
            op, lhs, rhs = node.ops[0], node.left, node.comparators[0]
            te = self.type_expr(lhs, env)
            if te is not None and isinstance(lhs, ast.Call) and getattr(lhs.func, "id", "") == "type":
                # type(x) is T: exact class; NUMBER_TYPE is not a class
                if atom_tag(rhs) == "TNum" or (isinstance(rhs, (ast.Tuple, ast.List)) and any(atom_tag(e) == "TNum" for e in rhs.elts)):
                    te = None
            if te is not None:
                if isinstance(op, (ast.Is, ast.Eq, ast.IsNot, ast.NotEq)):
                    c = self.match_cond(te, rhs)
                    if c is not None:
                        return c if isinstance(op, (ast.Is, ast.Eq)) else {"k": "not", "a": c}
                elif isinstance(op, (ast.In, ast.NotIn)) and isinstance(rhs, (ast.Tuple, ast.List, ast.Set)) and rhs.elts:
                    cs = [self.match_cond(te, e) for e in rhs.elts]
                    if all(c is not None for c in cs):
                        out = cs[0]
                        for c in cs[1:]:
                            out = {"k": "or", "a": out, "b": c}
                        return out if isinstance(op, ast.In) else {"k": "not", "a": out}
            # T in ts
            if isinstance(op, (ast.In, ast.NotIn)) and atom_tag(lhs) is not None:
                te2 = self.type_expr(rhs, env)
                if te2 is not None and te2[2]:
                    idx, simple, _ = te2
                    out = None
                    for i in idx:
                        c = {"k": "match", "simple": simple, "pats": self.pats_for((i,), [atom_tag(lhs)])}
                        out = c if out is None else {"k": "or", "a": out, "b": c}
                    return out if isinstance(op, ast.In) else {"k": "not", "a": out}
            return self.opaque_cond(node)
        if (isinstance(node, ast.Call) and isinstance(node.func, ast.Name) and node.func.id == "isinstance"
                and len(node.args) == 2 and not node.keywords and isinstance(node.args[0], ast.Name)
                and node.args[0].id in self.args and node.args[0].id in env.clean):
            i = self.args.index(node.args[0].id)
            ts = node.args[1].elts if isinstance(node.args[1], ast.Tuple) else [node.args[1]]
            tags = [atom_tag(t) for t in ts]
            if tags and all(t is not None and t != "TNum" for t in tags):
                out = None
                for t in tags:
                    c = {"k": "match", "simple": False, "pats": self.pats_for((i,), [t])}
                    out = c if out is None else {"k": "or", "a": out, "b": c}
                return out
            return self.opaque_cond(node)
        if (isinstance(node, ast.Attribute) and isinstance(node.value, ast.Name) and node.value.id == "ctx"):
            if node.attr not in self.flags:
                self.flags.append(node.attr)
            return {"k": "flag", "name": node.attr}
        return self.opaque_cond(node)

    # -- expressions in tail position ------------------------------------------
    def vec_leaf(self, call, env, eager=False):
        if not call.args or not isinstance(call.args[0], ast.Name):
            return leaf("Other", "vectorise: first argument is not a plain function name")
        if call.args[0].id != self.name:
            return leaf("Other", f"vectorise of another function: {call.args[0].id}")
        passed = call.args[1:]
        if any(isinstance(x, ast.Starred) for x in passed):
            return leaf("Other", "vectorise with starred arguments")
        names = [x.id if isinstance(x, ast.Name) else None for x in passed]
        want = self.args + self.none_params[: max(0, len(names) - self.arity)]
        if names != want:
            got = [ast.unparse(x) for x in passed]
            return leaf("Other", f"vectorise arguments {got} are not the element's arguments {self.args} in order")
        for n in self.args:
            if n not in env.clean:
                return leaf("Other", f"argument {n} is rebound before the vectorise call")
        explicit = False
        for kw in call.keywords:
            if kw.arg == "ctx":
                continue
            if kw.arg == "explicit" and isinstance(kw.value, ast.Constant) and isinstance(kw.value.value, bool):
                explicit = kw.value.value
                continue
            return leaf("Other", f"vectorise with keyword {kw.arg}")
        return leaf("Vec", "eager default (relies on LazyList.__call__ returning self)" if eager else "", explicit)

    def is_vectorise_call(self, node):
        return isinstance(node, ast.Call) and isinstance(node.func, ast.Name) and node.func.id == "vectorise"

    def opaque_expr(self, node):
        if node is not None and mentions(node, "vectorise"):
            return leaf("Other", "vectorise is used but not as `return vectorise(self, args...)`")
        return leaf("Scalar")

    def expr(self, node, env):
        if node is None:
            return leaf("Scalar", "returns None")
        if self.is_vectorise_call(node):
            return self.vec_leaf(node, env)
        if isinstance(node, ast.Call) and not node.args and not node.keywords:
            f = node.func
            # vectorise(...)()  -- a LazyList called with no arguments
            if self.is_vectorise_call(f):
                if self.lazy_call_ok:
                    l = self.vec_leaf(f, env)
                    if l["leaf"] == "Vec":
                        l["why"] = "result called: relies on LazyList.__call__ returning self"
                    return l
                return leaf("Other", "vectorise(...)() but LazyList.__call__ is not `return self`")
            # {...}.get(K[, D])()
            if (isinstance(f, ast.Call) and isinstance(f.func, ast.Attribute) and f.func.attr == "get"
                    and isinstance(f.func.value, ast.Dict) and not f.keywords and 1 <= len(f.args) <= 2):
                t = self.table(f.func.value, f.args[0], f.args[1] if len(f.args) == 2 else None, env)
                if t is not None:
                    return t
        if isinstance(node, ast.IfExp):
            return {"k": "if", "c": self.cond(node.test, env), "t": self.expr(node.body, env), "e": self.expr(node.orelse, env)}
        return self.opaque_expr(node)

    def thunk(self, node, env):
        """A dict value / default that is going to be called with no arguments."""
        if isinstance(node, ast.Lambda):
            a = node.args
            if a.args or a.vararg or a.kwarg or a.kwonlyargs or a.posonlyargs:
                return self.opaque_expr(node)
            return self.expr(node.body, env)
        if self.is_vectorise_call(node):
            # evaluated eagerly for every input, then the resulting LazyList is called
            if self.lazy_call_ok:
                return self.vec_leaf(node, env, eager=True)
            return leaf("Other", "eager vectorise default but LazyList.__call__ is not `return self`")
        return self.opaque_expr(node)

    def table(self, d: ast.Dict, key, default, env):
        te = self.type_expr(key, env)
        if te is None:
            return None
        idx, simple, is_tuple = te
        rows = []
        for k, v in zip(d.keys, d.values):
            if k is None:
                return leaf("Other", "dict display with ** unpacking")
            elts = k.elts if (is_tuple and isinstance(k, ast.Tuple)) else None
            if is_tuple:
                if elts is None or len(elts) != len(idx):
                    return leaf("Other", f"overload key {ast.unparse(k)} is not a {len(idx)}-tuple")
            else:
                elts = [k]
            tags = []
            for j, e in enumerate(elts):
                t = atom_tag(e)
                if t is None:
                    # ts[j] at position j: wildcard
                    te2 = self.type_expr(e, env) if isinstance(e, ast.Subscript) else None
                    if te2 is not None and te2[0] == (idx[j],) and te2[1] == simple and is_tuple:
                        t = "PAny"
                    else:
                        return leaf("Other", f"overload key {ast.unparse(k)} not recognised")
                tags.append(t)
            rows.append([self.pats_for(idx, tags), self.thunk(v, env)])
        dflt = leaf("Other", "no default: .get(ts)() on a missing key calls None") if default is None else self.thunk(default, env)
        return {"k": "table", "simple": simple, "rows": rows, "default": dflt}

    # -- statements -------------------------------------------------------------
    def block(self, stmts, env):
        env = env.copy()
        for i, st in enumerate(stmts):
            if isinstance(st, ast.Expr) and isinstance(st.value, ast.Constant) and isinstance(st.value.value, str):
                continue
            if isinstance(st, ast.Return):
                return self.expr(st.value, env)
            if isinstance(st, ast.Raise):
                return leaf("Other", "raises")
            if isinstance(st, ast.If):
                rest = stmts[i + 1:]
                c = self.cond(st.test, env)
                return {"k": "if", "c": c, "t": self.block(list(st.body) + rest, env), "e": self.block(list(st.orelse) + rest, env)}
            if isinstance(st, ast.Assign) and len(st.targets) == 1 and isinstance(st.targets[0], ast.Name):
                r = self.vy_type_call(st.value, env)
                env.kill([st.targets[0].id])
                if r is not None and st.targets[0].id not in self.args:
                    env.ts[st.targets[0].id] = r
                continue
            if not isinstance(st, (ast.FunctionDef, ast.AsyncFunctionDef, ast.ClassDef)) and contains_exit(st):
                return leaf("Other", f"{type(st).__name__} statement containing return/yield")
            env.kill(stored_names(st))
        return leaf("Scalar", "falls off the end (returns None)")

    def translate(self):
        if self.problem:
            return leaf("Other", self.problem)
        if contains_exit_yield_only(self.fn):
            return leaf("Other", "generator function")
        return self.block(self.fn.body, Env(self.args))


def contains_exit_yield_only(fn):
    stack = [n for n in fn.body if not isinstance(n, (ast.FunctionDef, ast.AsyncFunctionDef, ast.Lambda))]
    while stack:
        n = stack.pop()
        if isinstance(n, (ast.Yield, ast.YieldFrom)):
            return True
        for c in ast.iter_child_nodes(n):
            if isinstance(c, (ast.FunctionDef, ast.AsyncFunctionDef, ast.Lambda)):
                continue
            stack.append(c)
    return False


# ----------------------------------------------------------------------------
# a reference evaluator of the json trees (mirrors Model/Vectorise.v; used for
# the summary the harness reports and by props/C08.py)
# ----------------------------------------------------------------------------

def simp(tag, simple):
    return "TList" if (simple and tag == "TLazy") else tag


def pats_match(pats, tags, simple):
    return all(p == "PAny" or p == simp(t, simple) for p, t in zip(pats, tags))


def eval_cond(c, tags):
    """-> True / False / None (opaque).  Flags take their default value False."""
    k = c["k"]
    if k == "match":
        return pats_match(c["pats"], tags, c["simple"])
    if k == "flag":
        return False
    if k == "opaque":
        return None
    if k == "not":
        a = eval_cond(c["a"], tags)
        return None if a is None else (not a)
    a, b = eval_cond(c["a"], tags), eval_cond(c["b"], tags)
    if k == "and":
        if a is False or b is False:
            return False
        return True if (a is True and b is True) else None
    if a is True or b is True:
        return True
    return False if (a is False and b is False) else None


def reach(t, tags):
    """All leaves reachable with these argument tags."""
    k = t["k"]
    if k == "leaf":
        return [t]
    if k == "if":
        c = eval_cond(t["c"], tags)
        if c is True:
            return reach(t["t"], tags)
        if c is False:
            return reach(t["e"], tags)
        return reach(t["t"], tags) + reach(t["e"], tags)
    for pats, sub in reversed(t["rows"]):       # the last equal key wins in a dict display
        if pats_match(pats, tags, t["simple"]):
            return reach(sub, tags)
    return reach(t["default"], tags)


def leaves(t):
    if t["k"] == "leaf":
        return [t]
    if t["k"] == "if":
        return leaves(t["t"]) + leaves(t["e"])
    out = []
    for _, s in t["rows"]:
        out += leaves(s)
    return out + leaves(t["default"])


def tag_tuples(arity, tags=DATA_TAGS):
    out = [[]]
    for _ in range(arity):
        out = [o + [t] for o in out for t in tags]
    return out


def is_listy(tag):
    return tag in ("TList", "TLazy")


def incomplete_shapes(tree, arity):
    """Tag tuples with at least one list for which some reachable leaf is not `Vec false`."""
    bad = []
    for tt in tag_tuples(arity):
        if not any(is_listy(t) for t in tt):
            continue
        ls = reach(tree, tt)
        if not all(l["leaf"] == "Vec" and not l["explicit"] for l in ls):
            why = "; ".join(sorted({(l["leaf"] + (" explicit" if l["explicit"] else "") + (": " + l["why"] if l["why"] else "")) for l in ls if not (l["leaf"] == "Vec" and not l["explicit"])}))
            bad.append({"tags": tt, "why": why})
    return bad


# ----------------------------------------------------------------------------
# Coq emission
# ----------------------------------------------------------------------------

def c_pats(pats):
    return "[" + "; ".join("PAny" if p == "PAny" else f"PTag {p}" for p in pats) + "]"


def c_cond(c):
    k = c["k"]
    if k == "match":
        return f"(CMatch {G.cbool(c['simple'])} {c_pats(c['pats'])})"
    if k == "flag":
        return f"(CFlag {G.cstr(c['name'])})"
    if k == "opaque":
        return f"(COpaque {c['id']})"
    if k == "not":
        return f"(CNot {c_cond(c['a'])})"
    return f"({'CAnd' if k == 'and' else 'COr'} {c_cond(c['a'])} {c_cond(c['b'])})"


def c_tree(t, ind="    "):
    k = t["k"]
    if k == "leaf":
        if t["leaf"] == "Vec":
            return f"(Leaf (Vec {G.cbool(t['explicit'])}))"
        return f"(Leaf {t['leaf']})"
    if k == "if":
        return f"(If {c_cond(t['c'])}\n{ind}  {c_tree(t['t'], ind + '  ')}\n{ind}  {c_tree(t['e'], ind + '  ')})"
    rows = ";\n".join(f"{ind}   ({c_pats(p)}, {c_tree(s, ind + '    ')})" for p, s in t["rows"])
    rows = "[\n" + rows + "]" if t["rows"] else "[]"
    return f"(Table {G.cbool(t['simple'])} {rows}\n{ind}  {c_tree(t['default'], ind + '  ')})"


def lazylist_call_returns_self(repo):
    try:
        tree, _ = G.module_of(os.path.join(repo, "vyxal/LazyList.py"))
    except Exception:  # noqa: BLE001
        return False
    for n in tree.body:
        if isinstance(n, ast.ClassDef) and n.name == "LazyList":
            for m in n.body:
                if isinstance(m, ast.FunctionDef) and m.name == "__call__":
                    body = [s for s in m.body if not (isinstance(s, ast.Expr) and isinstance(s.value, ast.Constant))]
                    return (len(body) == 1 and isinstance(body[0], ast.Return) and isinstance(body[0].value, ast.Name)
                            and body[0].value.id == m.args.args[0].arg)
    return False


DOC_TYPES = {"num": "DNum", "str": "DStr", "lst": "DLst", "fun": "DFun", "any": "DAny"}


def read_doc_overloads(repo):
    """elements.yaml: per element key, the `overloads:` keys as lists of type names
    (num str lst fun any) with their documented text.  Keys using another word are
    reported, not used."""
    import miniyaml
    with open(os.path.join(repo, "documents/knowledge/elements.yaml"), encoding="utf-8") as f:
        entries = miniyaml.load_entries(f.read())
    out, odd = {}, []
    for e in entries:
        if "element" not in e:
            continue
        ov = e.get("overloads")
        if not isinstance(ov, dict):
            continue
        for k, text in ov.items():
            if k.startswith("__"):
                continue
            parts = str(k).split("-")
            if all(p in DOC_TYPES for p in parts):
                out.setdefault(e["element"], []).append({"types": parts, "doc_key": str(k), "text": str(text)})
            else:
                odd.append({"element": e["element"], "doc_key": str(k)})
    return out, odd


def doc_matches(types, tags):
    ok = {"num": ("TNum",), "str": ("TStr",), "lst": ("TList", "TLazy"), "fun": ("TFun",), "any": ALL_TAGS}
    return len(types) == len(tags) and all(t in ok[p] for p, t in zip(types, tags))


def never_vec(tree, tags):
    return all(not (l["leaf"] == "Vec" and not l["explicit"]) for l in reach(tree, tags))


def analyse(repo):
    path = os.path.join(repo, "vyxal/elements.py")
    tree, src = G.module_of(path)
    fns = {}
    for n in tree.body:
        if isinstance(n, ast.FunctionDef):
            fns[n.name] = n        # a later def of the same name wins, as in Python
    elements, _ = G.read_elements(repo)
    docs = G.read_yaml(repo)
    lazy_ok = lazylist_call_returns_self(repo)
    # the effective table entry of a key is the last one in the display
    eff = {}
    for e in elements:
        eff[e["key"]] = e
    entries = []
    for key, e in eff.items():
        rec = {"key": key, "fn": e["fn"], "arity": e["arity"], "tree": None, "opaque": [], "flags": [], "notes": []}
        if not e["fn"]:
            rec["skip"] = "hand-written template (no backing function)"
        elif e["fn"] not in fns:
            rec["skip"] = f"function {e['fn']} is not defined in elements.py"
        elif e["arity"] not in (1, 2):
            rec["skip"] = f"arity {e['arity']} (only monadic and dyadic vectorisation is modelled)"
        else:
            try:
                tr = FnTranslator(fns[e["fn"]], e["arity"], lazy_ok, src)
                rec["tree"] = tr.translate()
                rec["opaque"], rec["flags"], rec["notes"] = tr.opaque, tr.flags, tr.notes
            except Exception as ex:  # noqa: BLE001  fail-closed per entry
                rec["tree"] = leaf("Other", f"translator error: {type(ex).__name__}: {ex}")
        if rec["tree"] is not None:
            ls = leaves(rec["tree"])
            rec["has_vec"] = any(l["leaf"] == "Vec" and not l["explicit"] for l in ls)
            rec["incomplete"] = incomplete_shapes(rec["tree"], e["arity"])
            rec["scalar_not_direct"] = [tt for tt in tag_tuples(e["arity"], ["TNum", "TStr"])
                                        if not all(l["leaf"] == "Scalar" for l in reach(rec["tree"], tt))]
        entries.append(rec)
    by_key = {r["key"]: r for r in entries}
    curated, uncovered = [], []
    seen = set()
    for d in docs:
        if d["kind"] != "element" or d["vectorise"] is not True or d["key"] in seen:
            continue
        seen.add(d["key"])
        r = by_key.get(d["key"])
        if r is None:
            uncovered.append({"key": d["key"], "name": d["name"], "reason": "documented but no table entry"})
        elif r["tree"] is None:
            uncovered.append({"key": d["key"], "name": d["name"], "fn": r["fn"], "arity": r["arity"], "reason": r["skip"]})
        elif not mentions(fns[r["fn"]], "vectorise"):
            uncovered.append({"key": d["key"], "name": d["name"], "fn": r["fn"], "arity": r["arity"],
                              "reason": "the function never calls vectorise"})
        else:
            # in the table even when no fallback is recognised: entry_ok then fails
            curated.append(d["key"])
    doc_ov, odd = read_doc_overloads(repo)
    doc_exempt, strict_bad = [], []
    for k in curated:
        r = by_key[k]
        for x in r["incomplete"]:
            hit = next((o for o in doc_ov.get(k, []) if doc_matches(o["types"], x["tags"])), None)
            if hit is not None and never_vec(r["tree"], x["tags"]):
                doc_exempt.append({"key": k, "fn": r["fn"], "tags": x["tags"], "doc_key": hit["doc_key"], "text": hit["text"]})
            else:
                strict_bad.append({"key": k, "fn": r["fn"], "tags": x["tags"], "why": x["why"],
                                   "documented": hit["doc_key"] if hit else None})
    return {"entries": entries, "curated": curated, "uncovered": uncovered, "lazylist_call_returns_self": lazy_ok,
            "documented_vectorising": len(seen), "doc_overloads": {k: doc_ov.get(k, []) for k in curated},
            "doc_exempt": doc_exempt, "not_elementwise": strict_bad, "doc_keys_not_understood": odd}


def emit(an):
    s = ("(* GENERATED by tools/gen_dispatch.py from /repo/vyxal/elements.py and elements.yaml. Do not edit. *)\n"
         "From Coq Require Import List NArith ZArith Bool.\n"
         "From Vy Require Import Model.Base Model.Vectorise.\n"
         "Import ListNotations.\nOpen Scope N_scope.\n"
         "Definition translator_ok : bool := true.\n")
    names = {}
    n = 0
    for r in an["entries"]:
        if r["tree"] is None:
            continue
        nm = f"dt_{n}"
        n += 1
        names[r["key"]] = nm
        s += f"(* {r['fn']}, arity {r['arity']} *)\n"
        s += (f"Definition {nm} : dentry :=\n  {{| de_key := {G.cstr(r['key'])}; de_fn := {G.cstr(r['fn'])}; de_arity := {r['arity']}%nat;\n"
              f"     de_tree :=\n    {c_tree(r['tree'])} |}}.\n")
    s += "Definition dispatch : list dentry :=\n  [" + "; ".join(names.values()) + "].\n"
    s += ("(* elements.yaml `vectorise: true` entries backed by a function of arity 1 or 2\n"
          "   that calls vectorise *)\n")
    s += "Definition curated : list dentry :=\n  [" + "; ".join(names[k] for k in an["curated"]) + "].\n"
    s += "(* the `overloads:` keys elements.yaml documents for the curated elements *)\n"
    rows = []
    for k in an["curated"]:
        for o in an["doc_overloads"].get(k, []):
            rows.append(f"({G.cstr(k)}, [{'; '.join(DOC_TYPES[p] for p in o['types'])}])")
    s += "Definition doc_overloads : list (str * list dpat) :=\n  " + ("[" + ";\n   ".join(rows) + "]" if rows else "[]") + ".\n"
    return s


FAILED = ("(* GENERATED by tools/gen_dispatch.py: the translator FAILED (%s). *)\n"
          "From Coq Require Import List NArith ZArith Bool.\n"
          "From Vy Require Import Model.Base Model.Vectorise.\n"
          "Import ListNotations.\n"
          "Definition translator_ok : bool := false.\n"
          "Definition dispatch : list dentry := [].\nDefinition curated : list dentry := [].\n"
          "Definition doc_overloads : list (str * list dpat) := [].\n")


def generate(repo, outdir):
    """-> (json tables, changed files).  A failure of THIS translator must not take the
    other properties down with it: it is recorded in the tables and in Dispatch.v
    (translator_ok = false), which breaks C08's own obligations only."""
    try:
        an = analyse(repo)
        text = emit(an)
    except Exception as ex:  # noqa: BLE001
        an = {"error": f"{type(ex).__name__}: {ex}", "entries": [], "curated": [], "uncovered": [], "doc_exempt": [],
              "not_elementwise": [], "doc_overloads": {}, "documented_vectorising": 0, "lazylist_call_returns_self": False,
              "doc_keys_not_understood": []}
        text = FAILED % an["error"].replace("*)", "* )")[:200]
    changed = []
    if G.write_if_changed(os.path.join(outdir, "Dispatch.v"), text):
        changed.append("Dispatch.v")
    return an, changed


if __name__ == "__main__":
    repo = sys.argv[1] if len(sys.argv) > 1 else "/repo"
    an = analyse(repo)
    print("documented vectorising:", an["documented_vectorising"], "curated:", len(an["curated"]), "uncovered:", len(an["uncovered"]))
    for u in an["uncovered"]:
        print("  uncovered", u["key"], u.get("fn"), "--", u["reason"])
    for x in an["doc_exempt"]:
        print("  documented overload", x["key"], x["fn"], " ".join(x["tags"]), "--", x["doc_key"], ":", x["text"])
    for x in an["not_elementwise"]:
        print("  NOT ELEMENT-WISE", x["key"], x["fn"], " ".join(x["tags"]), "--", x["why"])
