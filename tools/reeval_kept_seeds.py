#!/usr/bin/env python3
"""Run the COMMITTED checks again on every kept seed (/verif/seeded/<name>/patch.diff) and refresh the
`run` part of seeded/results/<name>.json and the check_result of meta.json.  3 at a time."""
import json, os, subprocess, sys
from concurrent.futures import ThreadPoolExecutor
VERIF = os.path.dirname(os.path.dirname(os.path.abspath(__file__)))
names = sorted(n for n in os.listdir(os.path.join(VERIF, "seeded")) if os.path.exists(os.path.join(VERIF, "seeded", n, "patch.diff")))
only = set(sys.argv[1:])
if only:
    names = [n for n in names if n in only]


def one(n):
    prop = n[:3]
    p = subprocess.run([sys.executable, os.path.join(VERIF, "tools", "eval_seeds.py"), "run", os.path.join(VERIF, "seeded", n), prop],
                       stdin=subprocess.DEVNULL, stdout=subprocess.PIPE, stderr=subprocess.DEVNULL, text=True, timeout=3600)
    try:
        r = json.loads(p.stdout[p.stdout.index("{"):])
    except Exception:
        return n, None
    rp = os.path.join(VERIF, "seeded", "results", n + ".json")
    try:
        txt = open(rp, encoding="utf-8").read()
        old = json.loads(txt[txt.index("{"):])
    except Exception:
        old = {"confirm": {"confirmed": True, "note": "confirmed when the seed was kept"}}
    old["run"] = r
    with open(rp, "w", encoding="utf-8") as f:
        json.dump(old, f, ensure_ascii=False, indent=1)
    mp = os.path.join(VERIF, "seeded", n, "meta.json")
    try:
        m = json.load(open(mp, encoding="utf-8"))
        m["check_result"] = {k: r.get(k) for k in ("detected", "exit", "lines", "replay_kind", "failing_input", "failure_what",
                                                     "proof_obligations_broken", "correspondence_disagreements", "wall_s")}
        json.dump(m, open(mp, "w", encoding="utf-8"), ensure_ascii=False, indent=1)
    except Exception:
        pass
    return n, r


with ThreadPoolExecutor(3) as ex:
    for n, r in ex.map(one, names):
        print(n, None if r is None else (r.get("detected"), r.get("replay_kind")), flush=True)
