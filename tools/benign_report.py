#!/usr/bin/env python3
"""benign/<name>/result.json -> benign/RESULTS.md"""
import glob, json, os
VERIF = os.path.dirname(os.path.dirname(os.path.abspath(__file__)))
rows = []
for f in sorted(glob.glob(os.path.join(VERIF, "benign", "*", "result.json"))):
    r = json.load(open(f, encoding="utf-8"))
    c = r.get("check", {})
    note = ""
    p = os.path.join(os.path.dirname(f), "note.txt")
    if os.path.exists(p):
        note = " ".join(open(p, encoding="utf-8").read().split())[:160]
    broken = "; ".join((c.get("proof_obligations_broken") or []))[:160]
    rows.append((r["name"], r["property"], r.get("tests_pass_with_change"), r.get("equiv_exit"), r.get("outcome"), broken, note))
with open(os.path.join(VERIF, "benign", "RESULTS.md"), "w", encoding="utf-8") as f:
    f.write("# Behaviour-preserving refactorings run through the checks\n\n"
            "Each was written by a fresh sub-agent from the property text alone, passes the 392 tests and its own\n"
            "differential script (`equiv.py`, old vs new code on 10^5 inputs). `quiet` = the check exits 0;\n"
            "`no-failing-input-found` = a translator / proof obligation no longer recognises the source, no failing input exists.\n\n"
            "| refactoring | property | tests | equiv | check outcome | what no longer checked | what the refactoring does |\n|---|---|---|---|---|---|---|\n")
    for r in rows:
        f.write("| " + " | ".join(str(x).replace("|", "\\|") for x in r) + " |\n")
    q = sum(1 for r in rows if r[4] == "quiet")
    f.write(f"\n{q} quiet of {len(rows)}; {sum(1 for r in rows if r[4]=='no-failing-input-found')} no-failing-input-found; "
            f"{sum(1 for r in rows if r[4]=='false-alarm-with-input')} alarms with a (spurious) failing input.\n")
print(open(os.path.join(VERIF, "benign", "RESULTS.md")).read())
