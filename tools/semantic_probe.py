#!/usr/bin/env python3
"""Semantic probes for tools/gen_tables.py.  Runs INSIDE a subprocess whose PYTHONPATH is the
checkout under examination (never imported by the verification side):

    PYTHONPATH=<repo> python semantic_probe.py <section> <repo>

It obtains what a translator section describes from what the code COMPUTES (module
constants after import, results of calling the functions on exhaustive / systematic probes)
and prints ONE json object on stdout: {"ok": true, "data": ...} or {"ok": false, "error": ...}.
Anything that does not fit the table's meaning is an error (fail closed); the caller
(gen_tables.read_*_semantic) does the remaining validation and the canonical ordering.
Standard library only; nothing of /verif is imported here."""
from __future__ import annotations

import ast
import json
import os
import random
import sys


class Fail(Exception):
    pass


def need(cond, what):
    if not cond:
        raise Fail(what)


def code_points():
    return [chr(i) for i in range(0x110000) if not 0xD800 <= i <= 0xDFFF]


def chunks(seq, n):
    for i in range(0, len(seq), n):
        yield seq[i:i + n]


def check_origin(mod, repo):
    f = os.path.realpath(getattr(mod, "__file__", "") or "")
    need(f.startswith(os.path.realpath(repo) + os.sep), f"{mod.__name__} was imported from {f}, not from {repo}")


# ----------------------------------------------------------------------------------------
# encoding
# ----------------------------------------------------------------------------------------

def probe_encoding(repo):
    import vyxal.encoding as E
    check_origin(E, repo)
    out = {}
    for n in ("codepage", "compression", "codepage_number_compress", "codepage_string_compress", "base_27_alphabet"):
        need(hasattr(E, n), f"encoding.{n} not found")
        v = getattr(E, n)
        need(type(v) is str, f"encoding.{n}: a str expected, found {type(v).__name__}")
        out[n] = v
    return out


# ----------------------------------------------------------------------------------------
# parser: constants, validated against what parse() does with them
# ----------------------------------------------------------------------------------------

def ser(x, L, S):
    """canonical nested-list form of a parse result"""
    if isinstance(x, L.Token):
        return ["T", getattr(x.name, "value", repr(x.name)), x.value]
    if isinstance(x, S.Structure):
        r = [type(x).__name__, [ser(b, L, S) for b in x.branches]]
        if hasattr(x, "modifier"):
            r.append(["M", x.modifier])
        return r
    if isinstance(x, (list, tuple)):
        return ["L"] + [ser(b, L, S) for b in x]
    if isinstance(x, str):
        return ["S", x]
    if isinstance(x, type):
        return ["C", x.__name__]
    if x is None or isinstance(x, (int, bool)):
        return x
    return ["?", repr(x)]


class ParserProbe:
    def __init__(self, repo):
        from vyxal import lexer as L, parse as P, structure as S
        for m in (L, P, S):
            check_origin(m, repo)
        self.L, self.P, self.S = L, P, S
        self.consts = self.read_consts()
        c = self.consts
        self.info = c["structure_info"]
        self.openers = [o for o, _, _ in self.info]
        self.closer_of = {o: cl for o, _, cl in self.info}
        self.closers = list(dict.fromkeys(cl for _, _, cl in self.info))
        self.ignored = self.closers + [x for x in (" ", "|") if x not in self.closers]
        self.classes = {
            "break": [c["break_character"]], "recurse": [c["recurse_character"]], "open": self.openers,
            "monadic": c["monadic_modifiers"], "dyadic": c["dyadic_modifiers"], "triadic": c["triadic_modifiers"],
            "ignore": self.ignored,
        }
        used = set().union(*map(set, self.classes.values()))
        self.neutral = [ch for ch in "abcdefghijklmnopqrstuwyz" if ch not in used][:6]
        need(len(self.neutral) == 6, "no neutral letters left for the probes")
        self.q = "\ue000"
        need(self.q not in used, "probe payload is a structural character")

    # -- constants ----------------------------------------------------------------------
    def read_consts(self):
        P, S = self.P, self.S
        need(hasattr(P, "STRUCTURE_INFORMATION"), "parse.STRUCTURE_INFORMATION not found")
        info = P.STRUCTURE_INFORMATION
        need(isinstance(info, dict) and info, "STRUCTURE_INFORMATION: a non-empty dict expected")
        rows = []
        for k, v in info.items():
            need(type(k) is str and isinstance(v, tuple) and len(v) == 2 and isinstance(v[0], type) and type(v[1]) is str,
                 f"STRUCTURE_INFORMATION[{k!r}]: (class, closing character) expected")
            need(getattr(S, v[0].__name__, None) is v[0] and issubclass(v[0], S.Structure),
                 f"STRUCTURE_INFORMATION[{k!r}]: {v[0].__name__} is not a class of vyxal.structure")
            need(len(k) == 1 and len(v[1]) == 1, "STRUCTURE_INFORMATION: single-character delimiters expected")
            rows.append([k, v[0].__name__, v[1]])
        out = {"structure_info": rows}
        for n in ("MONADIC_MODIFIERS", "DYADIC_MODIFIERS", "TRIADIC_MODIFIERS"):
            need(hasattr(P, n), f"parse.{n} not found")
            v = getattr(P, n)
            need(isinstance(v, (list, tuple, str)) and all(type(x) is str and len(x) == 1 for x in v),
                 f"parse.{n}: a sequence of single characters expected")
            out[n.lower()] = list(v)
        for n in ("BREAK_CHARACTER", "RECURSE_CHARACTER"):
            need(hasattr(P, n), f"parse.{n} not found")
            v = getattr(P, n)
            need(type(v) is str and len(v) == 1, f"parse.{n}: a single character expected")
            out[n.lower()] = v
        return out

    # -- helpers ------------------------------------------------------------------------
    def G(self, v):
        return self.L.Token(self.L.TokenType.GENERAL, v)

    def T(self, kind, v):
        return self.L.Token(kind, v)

    def N(self, i):
        return self.G(self.neutral[i])

    def gen(self, tok):
        return self.S.GenericStatement([tok])

    def outcome(self, tokens):
        try:
            return ["ok", ser(self.P.parse(list(tokens)), self.L, self.S)]
        except RecursionError:
            raise
        except Exception as e:  # noqa: BLE001
            return ["exc", type(e).__name__]

    def sers(self, structs):
        return ["ok", ser(list(structs), self.L, self.S)]

    def disjoint(self):
        names = list(self.classes)
        for i, a in enumerate(names):
            need(len(set(self.classes[a])) == len(self.classes[a]) or a == "ignore", f"parser class {a}: repeated character")
            for b in names[i + 1:]:
                both = set(self.classes[a]) & set(self.classes[b])
                need(not both, f"parser character classes {a} and {b} overlap on {sorted(both)!r}: the order of the ladder in parse() "
                               "would matter and is not observable from the constants")

    # -- the constants describe what parse() does ---------------------------------------
    def validate(self, codepage):
        self.disjoint()
        S = self.S
        expected = {}
        for cls, chars in self.classes.items():
            for ch in chars:
                expected[ch] = cls
        arity = {"monadic": 1, "dyadic": 2, "triadic": 3}
        domain = list(dict.fromkeys(list(codepage) + list(expected) + self.neutral + [self.q]))
        for ch in domain:
            toks = [self.N(0), self.G(ch), self.N(1), self.N(2), self.N(3), self.N(4)]
            r = self.outcome(toks)
            tail = [self.gen(self.N(i)) for i in (1, 2, 3, 4)]
            head = [self.gen(self.N(0))]
            want = expected.get(ch, "generic")
            if want == "generic":
                ok = r == self.sers(head + [self.gen(self.G(ch))] + tail)
            elif want == "ignore":
                ok = r == self.sers(head + tail)
            elif want == "break":
                ok = r == self.sers(head + [S.BreakStatement(None)] + tail)
            elif want == "recurse":
                ok = r == self.sers(head + [S.RecurseStatement(None)] + tail)
            elif want in arity:
                n = arity[want]
                full = self.sers(head + tail)
                ok = (r[0] == "ok" and len(r[1]) == 1 + 1 + 1 + (4 - n) and r[1][1] == full[1][1]
                      and r[1][3:] == full[1][2 + n:] and r[1][2][0] in (want.capitalize() + "Modifier", "Lambda"))
            else:  # opener: checked below with its closer
                ok = r[0] != "ok" or r != self.sers(head + [self.gen(self.G(ch))] + tail)
            need(ok, f"parse() does not treat the GENERAL token {ch!r} as the constants of parse.py say ({want})")
        for o, cls, cl in self.info:
            r = self.outcome([self.G(o), self.N(1), self.G(cl), self.N(2)])
            need(r[0] == "ok" and len(r[1]) == 3 and r[1][1][0] == cls and r[1][2] == ser(self.gen(self.N(2)), self.L, S),
                 f"parse(): {o!r} ... {cl!r} does not build one {cls} closed by {cl!r}")
            for other in self.closers:
                if other == cl:
                    continue
                r = self.outcome([self.G(o), self.N(1), self.G(other), self.N(2)])
                need(r[0] != "ok" or len(r[1]) == 2, f"parse(): the structure opened by {o!r} is closed by {other!r} too")
        return True

    # -- kind guards --------------------------------------------------------------------
    def subst(self, x, kind, ch):
        """the outcome a probe has when the token (kind, q) is inert data, rewritten for payload ch"""
        if isinstance(x, list):
            if len(x) == 3 and x[0] == "T" and x[1] == kind.value and x[2] == self.q:
                return ["T", x[1], ch]
            if len(x) == 2 and x[0] == "S" and isinstance(x[1], str):
                return ["S", x[1].replace(self.q, ch)]
            return [self.subst(y, kind, ch) for y in x]
        return x

    def verdict(self, mk, kind, ch):
        r = self.outcome(mk(self.T(kind, ch)))
        d = self.subst(self.outcome(mk(self.T(kind, self.q))), kind, ch)
        s = self.outcome(mk(self.G(ch)))
        if d == s:
            return "nondiscriminating"
        if r == d:
            return "data"
        if r == s:
            return "structure"
        return "other"

    def quirks(self):
        L = self.L
        kinds = [k for k in L.TokenType if k is not L.TokenType.GENERAL]
        need(len(kinds) >= 1, "lexer.TokenType has no literal kinds")
        names = {k.name for k in L.TokenType}
        need({"STRING", "CHARACTER", "VARIABLE_GET", "VARIABLE_SET", "GENERAL"} <= names, "lexer.TokenType: members renamed")
        literal_first = [L.TokenType.STRING, L.TokenType.CHARACTER, L.TokenType.VARIABLE_GET, L.TokenType.VARIABLE_SET]
        ladder_kinds = [k for k in kinds if k not in literal_first]
        need(ladder_kinds, "no token kind reaches the ladder of parse()")
        verdicts = {}
        detail = {}

        def record(flag, kind, ch, v, where):
            verdicts.setdefault((flag, kind.name, ch), []).append(v)
            if v not in ("data", "nondiscriminating"):
                detail.setdefault(flag, []).append(f"{kind.name}:{ch!r} {where}: {v}")

        n = self.N
        # parse(): the seven decisions of its ladder, at top level and inside a loop body
        top = {
            "break_kind_guarded": self.classes["break"], "recurse_kind_guarded": self.classes["recurse"],
            "open_kind_guarded": self.classes["open"], "monadic_kind_guarded": self.classes["monadic"],
            "dyadic_kind_guarded": self.classes["dyadic"], "triadic_kind_guarded": self.classes["triadic"],
            "ignore_kind_guarded": self.classes["ignore"],
        }
        loop_open = next((o for o, c, _ in self.info if c == "ForLoop"), self.openers[0])
        for flag, chars in top.items():
            for ch in chars:
                after = [n(1), n(2), n(3)]
                if flag == "open_kind_guarded":
                    after = [n(1), self.G(self.closer_of[ch]), n(2), n(3)]
                layouts = {
                    "top": lambda t, after=after: [n(0), t] + after + [n(4)],
                    "in-loop": lambda t, after=after: [self.G(loop_open), n(0), t] + after + [self.G(self.closer_of[loop_open]), n(4)],
                }
                if flag == "ignore_kind_guarded" and ch in (self.closer_of[loop_open], "|"):
                    del layouts["in-loop"]      # there the character is decided by _get_branches first
                for where, mk in layouts.items():
                    for kind in kinds:
                        v = self.verdict(mk, kind, ch)
                        if kind in literal_first:
                            need(v in ("data", "nondiscriminating"),
                                 f"parse(): a {kind.name} token with payload {ch!r} is not plain data ({v}); the model dispatches "
                                 "string / character / variable tokens before any syntax decision")
                            if v == "data":
                                verdicts.setdefault(("literal_first", kind.name, ch), []).append(v)
                        else:
                            record(flag, kind, ch, v, where)
        # _get_branches: opener / "|" / closer, for every kind, at nesting depth 1..3
        outer_default = next((o for o, c, _ in self.info if c == "IfStatement"), self.openers[0])

        def nested(inner_open, depth):
            outers = [outer_default] * (depth - 1) + [inner_open]

            def mk(t):
                toks = []
                for o in outers:
                    toks += [self.G(o), n(0)]
                toks += [t, n(1)]
                for o in reversed(outers):
                    toks += [self.G(self.closer_of[o]), n(2)]
                return toks
            return mk

        for depth in (1, 2, 3):
            for inner in self.openers:
                mk = nested(inner, depth)
                where = f"inside {inner!r} at depth {depth}"
                for kind in kinds:
                    for ch in self.openers:
                        record("gb_open_kind_guarded", kind, ch, self.verdict(mk, kind, ch), where)
                    record("gb_pipe_kind_guarded", kind, "|", self.verdict(mk, kind, "|"), where)
                    for ch in self.closers:
                        record("gb_close_kind_guarded", kind, ch, self.verdict(mk, kind, ch), where)
        flags = {}
        counts = {}
        for (flag, kname, ch), vs in verdicts.items():
            if flag == "literal_first":
                continue
            real = [v for v in vs if v != "nondiscriminating"]
            need(real, f"{flag}: no probe distinguishes syntax from data for a {kname} token with payload {ch!r}")
            flags.setdefault(flag, set()).update(real)
            counts[flag] = counts.get(flag, 0) + len(real)
        out = {}
        for flag in list(top) + ["gb_open_kind_guarded", "gb_pipe_kind_guarded", "gb_close_kind_guarded"]:
            vs = flags.get(flag)
            need(vs, f"{flag}: no probe")
            if vs == {"data"}:
                out[flag] = True
            elif vs == {"structure"}:
                out[flag] = False
            else:
                raise Fail(f"{flag}: literal tokens carrying the character are neither uniformly data nor uniformly syntax: "
                           + "; ".join(detail.get(flag, [])[:6]))
        return out, counts


def probe_parser(repo):
    import vyxal.encoding as E
    p = ParserProbe(repo)
    p.validate(E.codepage if type(getattr(E, "codepage", None)) is str else "")
    return p.consts


def probe_parser_quirks(repo):
    import vyxal.encoding as E
    p = ParserProbe(repo)
    p.validate(E.codepage if type(getattr(E, "codepage", None)) is str else "")
    flags, counts = p.quirks()
    return {"flags": flags, "probes": counts, "classes_disjoint": True}


# ----------------------------------------------------------------------------------------
# regex: kept characters of the five sanitising sites, the number predicate
# ----------------------------------------------------------------------------------------

ML, MR = "Qz", "zQ"


def substituted(out0, out1, base):
    """out0 is the text produced for the name `base`; out1 must be the same text with every
    occurrence of `base` replaced by one string X: returns X"""
    pieces = out0.split(base)
    k = len(pieces) - 1
    need(k >= 1, "the sanitised name does not appear in the produced text")
    fixed = sum(map(len, pieces))
    need(len(out1) >= fixed and (len(out1) - fixed) % k == 0, "the produced text is not the template with the name substituted")
    n = (len(out1) - fixed) // k
    x = out1[len(pieces[0]):len(pieces[0]) + n]
    need(x.join(pieces) == out1, "the produced text is not the template with the name substituted")
    return x


def is_subsequence(small, big):
    it = iter(big)
    return all(c in it for c in small)


_SHUFFLED = {}


def shuffled_once(exclude=""):
    """one fixed permutation of all code points (without those of `exclude`), shared by the sites"""
    if "all" not in _SHUFFLED:
        allc = code_points()
        random.Random(20240611).shuffle(allc)
        _SHUFFLED["all"] = allc
    if exclude not in _SHUFFLED:
        _SHUFFLED[exclude] = [c for c in _SHUFFLED["all"] if c not in exclude] if exclude else _SHUFFLED["all"]
    return _SHUFFLED[exclude]


def kept_by(site, cps, what, exclude=""):
    """site: name -> sanitised name.  The set of characters c that survive, determined on two
    independent batch layouts and then re-checked one character at a time."""
    results = []
    rng = random.Random(20240611)
    shuffled = shuffled_once(exclude)
    for layout, size in ((cps, 8192), (shuffled, 5003)):
        kept = set()
        for chunk in chunks(layout, size):
            batch = "".join(chunk)
            x = site(ML + batch + MR)
            need(x.startswith(ML) and x.endswith(MR) and len(x) >= len(ML) + len(MR), f"{what}: the markers around the probe were altered")
            body = x[len(ML):len(x) - len(MR)]
            need(is_subsequence(body, batch), f"{what}: the sanitised name is not a selection of the characters of the name")
            kept.update(body)
        results.append(kept)
    need(results[0] == results[1], f"{what}: whether a character is kept depends on its neighbours: "
                                   f"{sorted(results[0] ^ results[1])[:8]!r}")
    kept = results[0]
    need(len(kept) <= 512, f"{what}: {len(kept)} characters are kept, too many for an explicit table")
    # one at a time, in the middle / leading / trailing / doubled: the sanitiser is a filter
    single = sorted(kept | {chr(i) for i in range(0x180)} | set(rng.sample(cps, 400)))
    allowed = set(cps)
    for c in single:
        if c not in allowed:
            continue
        k = c if c in kept else ""
        for name, want in ((ML + c + MR, ML + k + MR), (c + MR, k + MR), (ML + c, ML + k), (ML + c + c + MR, ML + k + k + MR)):
            need(site(name) == want, f"{what}: {name!r} is not sanitised to {want!r}: not a per-character filter")
    return kept


def probe_regex(repo):
    from vyxal import lexer as L, parse as P, structure as S
    import vyxal.transpile as T
    for m in (L, P, S, T):
        check_origin(m, repo)
    need(hasattr(T, "transpile_structure") and hasattr(P, "process_parameters"), "transpile_structure / process_parameters not found")
    cps = code_points()

    def via_transpile(build, what):
        base = ML + MR

        def text(name):
            try:
                a = T.transpile_structure(build(name), 0)
            except Exception as e:  # noqa: BLE001
                raise Fail(f"{what}: transpile_structure raised {type(e).__name__}: {e}")
            need(type(a) is str, f"{what}: text expected")
            return a
        out0 = text(base)
        need(out0 == text(base), f"{what}: the produced text is not deterministic")

        def site(name):
            return substituted(out0, text(name), base)
        need(site(base) == base and site(ML + "Q" + MR) == ML + "Q" + MR, f"{what}: a plain identifier is altered")
        return site

    sites = {
        "re_keep_for": via_transpile(lambda nm: S.ForLoop([nm], []), "for-loop variable"),
        "re_keep_fncall": via_transpile(lambda nm: S.FunctionCall(nm), "function call name"),
        "re_keep_fndef": via_transpile(lambda nm: S.FunctionDef(nm, [], []), "function definition name"),
        "re_keep_fnparam": via_transpile(lambda nm: S.FunctionDef("f", [nm], []), "named parameter"),
    }

    def params_of(text):
        try:
            r = P.process_parameters([L.Token(L.TokenType.GENERAL, "f"), L.Token(L.TokenType.GENERAL, ":" + text)])
        except Exception as e:  # noqa: BLE001
            raise Fail(f"process_parameters raised {type(e).__name__}: {e}")
        need(isinstance(r, tuple) and len(r) == 2 and r[0] == "f" and isinstance(r[1], list) and all(type(x) is str for x in r[1]),
             "process_parameters: (name, [parameters]) expected")
        return r[1]

    def param_site(name):
        r = params_of(name)
        need(len(r) == 1, "process_parameters: one parameter expected")
        return r[0]

    out = {}
    for k, site in sites.items():
        out[k] = sorted(kept_by(site, cps, k))
    no_colon = [c for c in cps if c != ":"]
    need(params_of(ML + ":" + MR) == [ML, MR] and params_of("") == [""], "process_parameters: ':' does not separate parameters")
    keep = kept_by(param_site, no_colon, "param_keep_chars", ":")
    out["param_keep_chars"] = sorted(keep)
    # which single characters are passed through as a NUMBER parameter
    shuffled = shuffled_once(":")
    sets = []
    for layout, size in ((no_colon, 4096), (shuffled, 3001)):
        verbatim = set()
        for chunk in chunks(layout, size):
            r = params_of(":".join(chunk))
            need(len(r) == len(chunk), "process_parameters: one result per parameter expected")
            for c, x in zip(chunk, r):
                need(x in (c, ""), f"process_parameters: {c!r} became {x!r}")
                if x == c:
                    verbatim.add(c)
        sets.append(verbatim)
    need(sets[0] == sets[1], "process_parameters: the treatment of a parameter depends on its neighbours")
    verbatim = sets[0]
    need(keep <= verbatim, "process_parameters: a kept character is not kept when alone")
    star = {"*"} & verbatim
    numbers = verbatim - keep - {"*"}
    matches = [p for p in ("isdecimal", "isdigit", "isnumeric") if numbers == {c for c in no_colon if getattr(c, p)()} - keep - {"*"}]
    need(len(matches) == 1, f"process_parameters: the single characters passed through verbatim ({len(numbers)}) are those of none "
                            f"(or several) of str.isdecimal/isdigit/isnumeric: {matches}")
    need(star == {"*"}, "process_parameters: '*' is not passed through")
    pred = matches[0]
    out["param_number_predicate"] = pred
    # whole-parameter rule of the model: verbatim iff non-empty and every character numeric, or "*"
    nums = sorted(numbers)
    pool = [nums[0], nums[-1], nums[len(nums) // 2], "1", "9", "a", "Z", "_", "*", "-", " ", ".", "²", "½", "٣", "λ", "\n"]
    cases = [""] + pool + [a + b for a in pool for b in pool] + ["123", "1a2", "12*", "a1b", "__", "1_000", " 12", "12 "]
    for p in cases:
        if ":" in p:
            continue
        want = p if (p != "" and all(getattr(c, pred)() for c in p)) or p == "*" else "".join(c for c in p if c in keep)
        got = param_site(p)
        need(got == want, f"process_parameters: parameter {p!r} gives {got!r}, the model of the table gives {want!r}")
    return out


# ----------------------------------------------------------------------------------------
# lexer: the character classes of the ladder in tokenise
# ----------------------------------------------------------------------------------------

LEX_CLASSES = ["lex_escape", "lex_string_delims", "lex_number_chars", "lex_twochar", "lex_var", "lex_comment", "lex_digraph", "lex_cpnum"]
ASCII_LETTERS = "abcdefghijklmnopqrstuvwxyzABCDEFGHIJKLMNOPQRSTUVWXYZ"


def number_ok(s):
    return s.count("°") < 2 and all(p.count(".") < 2 for p in s.split("°"))


def string_kind(d):
    return "string" if d == "`" else "compressed_number" if d == "»" else "compressed_string"


def lex_model(s, cls, dv=False):
    """coq/Model/Lexer.v `run`, transcribed; cls maps a character to its class (absent: general)"""
    out = []

    def normal(c):
        k = cls.get(c)
        if k == "lex_escape":
            return ("esc",)
        if k == "lex_string_delims":
            return ("str", c, "")
        if k == "lex_number_chars":
            return ("zero",) if c == "0" else ("num", c)
        if k == "lex_twochar":
            return ("two", "")
        if k == "lex_var":
            return ("var", c == "→", "")
        if k == "lex_comment":
            return ("com",)
        if k == "lex_digraph":
            return ("dig", c)
        if k == "lex_cpnum":
            return ("cp",)
        out.append(("general", c))
        return ("n",)

    def vk(is_set):
        return "variable_set" if is_set else "variable_get"

    m = ("n",)
    for c in s:
        t = m[0]
        if t == "n":
            m = normal(c)
        elif t == "esc":
            out.append(("character", c))
            m = ("n",)
        elif t == "str":
            d, acc = m[1], m[2]
            if c == d:
                out.append((string_kind(d), acc))
                m = ("n",)
            elif d == "`" and c == "\\":
                m = ("stresc", acc)
            else:
                m = ("str", d, acc + c)
        elif t == "stresc":
            m = ("str", "`", m[1] + "\\" + c)
        elif t == "zero":
            if c in "°." and cls.get(c) == "lex_number_chars" and number_ok("0" + c):
                m = ("num", "0" + c)
            else:
                out.append(("number", "0"))
                m = normal(c)
        elif t == "num":
            acc = m[1]
            if cls.get(c) == "lex_number_chars" and number_ok(acc + c):
                m = ("num", acc + c)
            else:
                out.append(("number", acc))
                m = normal(c)
        elif t == "two":
            acc = m[1]
            if len(acc) == 1:
                out.append(("string", acc + c))
                m = ("n",)
            else:
                m = ("two", acc + c)
        elif t == "var":
            is_set, acc = m[1], m[2]
            if c in ASCII_LETTERS or c == "_":
                if dv:
                    out.append((vk(is_set), acc + c))
                    m = ("n",)
                else:
                    m = ("var", is_set, acc + c)
            else:
                out.append((vk(is_set), acc))
                m = normal(c)
        elif t == "com":
            m = ("n",) if c == "\n" else ("com",)
        elif t == "dig":
            h = m[1]
            if c == "|":
                out.append(("general", h))
                m = normal(c)
            else:
                out.append(("general", h + c))
                m = ("n",)
        elif t == "cp":
            out.append(("codepage_number", c))
            m = ("n",)
    t = m[0]
    if t == "str":
        out.append((string_kind(m[1]), m[2]))
    elif t == "stresc":
        out.append(("string", m[1]))
    elif t == "zero":
        out.append(("number", "0"))
    elif t == "num":
        out.append(("number", m[1]))
    elif t == "two":
        out.append(("string", m[1]))
    elif t == "var":
        out.append((vk(m[1]), m[2]))
    elif t == "dig":
        out.append(("general", m[1]))
    return out


def harvest_fragments(path):
    """(all fragments, the multi-character / pattern-derived ones) from the string constants and
    regular expressions written in the lexer's source"""
    import re
    with open(path, encoding="utf-8") as f:
        tree = ast.parse(f.read(), filename=path)
    docstrings = set()
    for n in ast.walk(tree):
        if isinstance(n, (ast.Module, ast.FunctionDef, ast.AsyncFunctionDef, ast.ClassDef)) and n.body:
            b = n.body[0]
            if isinstance(b, ast.Expr) and isinstance(b.value, ast.Constant) and isinstance(b.value.value, str):
                docstrings.add(id(b.value))
    patterns = []
    for n in ast.walk(tree):
        if isinstance(n, ast.Call) and isinstance(n.func, ast.Attribute) and n.func.attr in (
                "compile", "sub", "subn", "match", "search", "fullmatch", "split", "findall", "finditer", "replace",
                "translate", "maketrans", "strip", "lstrip", "rstrip", "removeprefix", "removesuffix", "startswith", "endswith"):
            for a in list(n.args) + [k.value for k in n.keywords]:
                for m in ast.walk(a):
                    if isinstance(m, ast.Constant) and isinstance(m.value, str) and 0 < len(m.value) <= 400:
                        patterns.append(m.value)
    consts = [n.value for n in ast.walk(tree)
              if isinstance(n, ast.Constant) and isinstance(n.value, str) and id(n) not in docstrings and 0 < len(n.value) <= 12]

    def pieces(p):
        p = p.replace("\\", "")
        return [x for x in re.split(r"[.*+?()\[\]|^$]+", p) if 0 < len(x) <= 12]

    frags, special = [], []
    for c in consts:
        frags.append(c)
        if len(c) >= 2 and not c.isalnum():
            special.append(c)
        for x in pieces(c):
            if x != c:
                frags.append(x)
    for p in patterns:
        for x in pieces(p):
            frags.append(x)
            special.append(x)
    special = list(dict.fromkeys(special))
    # plain words that no string method / pattern mentions (enum values ...): a few are enough
    word = [f for f in dict.fromkeys(frags) if f.isalnum() and f.isascii() and len(f) > 2 and f not in special]
    frags = [f for f in dict.fromkeys(frags) if f not in word] + word[:3]
    need(len(frags) <= 120 and len(special) <= 40, f"lexer.py: too many string constants to probe their combinations ({len(frags)}, {len(special)})")
    return frags, special


def probe_lexer(repo):
    from vyxal import lexer as L
    import vyxal.encoding as E
    check_origin(L, repo)
    need(hasattr(L, "tokenise"), "lexer.tokenise not found")
    codepage = E.codepage if type(getattr(E, "codepage", None)) is str else ""

    def impl(s, dv=False):
        try:
            r = L.tokenise(s, True) if dv else L.tokenise(s)
        except Exception as e:  # noqa: BLE001
            return ("exc", type(e).__name__)
        return [(getattr(t.name, "value", None), t.value) for t in r]

    extras = "\u0307\u2028\u2029\ufeff\U0010ffff\ud7ff\ue000\u0660\u00b2\u00bd\u2460\u3007\u0661\u0967"
    domain = list(dict.fromkeys(list(codepage) + [chr(i) for i in range(0x100)] + list(extras)))
    # pass A: the unique class under which the model reproduces tokenise on c + suffix, the
    # suffix characters a b | newline being taken as general (re-checked below)
    assumed_general = ["a", "b", "|", "\n"]
    cls = {}
    for c in domain:
        suffixes = ["", "a", "ab", "abc", "|", "|a", "a|", "a\nb", "\nb", "a" + c + "b", c, c + "a", c + c + "a"]
        got = [impl(c + s) for s in suffixes]
        fits = []
        for k in LEX_CLASSES + [None]:
            trial = {} if k is None else {c: k}
            if all(lex_model(c + s, trial) == g for s, g in zip(suffixes, got)):
                fits.append(k)
        need(len(fits) == 1, f"lexer: the head character {c!r} behaves like "
                             f"{'none' if not fits else 'several'} of the classes of the ladder in tokenise ({fits})")
        if fits[0] is not None:
            cls[c] = fits[0]
    for c in assumed_general:
        need(c not in cls, f"lexer: {c!r} is not an ordinary character any more")
    # pass B: with ALL classes fixed, model == tokenise on every c in every two-character context
    reps = list(dict.fromkeys(
        ["a", "_", "|", "\n", " ", "\\", "`", "»", "«", "0", "1", ".", "°", "‛", "→", "←", "#", "k", "⁺", ";", "]", "Z"]
        + [next(c for c in domain if cls.get(c) == k) for k in LEX_CLASSES if k in cls.values()]))
    ctx = [""] + reps
    ctx2 = ctx + [a + b for a in reps for b in reps]
    n_cases = 0
    for c in domain:
        for pre in ctx:
            for post in ctx2 if pre == "" else ctx:
                s = pre + c + post
                n_cases += 1
                if lex_model(s, cls) != impl(s):
                    raise Fail(f"lexer: tokenise({s!r}) = {impl(s)!r}; the model with the classes read from behaviour gives {lex_model(s, cls)!r}")
        for s in ("→" + c, "←" + c + "a", "→a" + c, c + "ab", "→" + c + c):
            n_cases += 1
            if lex_model(s, cls, True) != impl(s, True):
                raise Fail(f"lexer: tokenise({s!r}, variables_as_digraphs=True) = {impl(s, True)!r}; the model gives {lex_model(s, cls, True)!r}")
    # pass C: probing one head character at a time cannot see a pass over the whole text (a
    # regex substitution before the loop, a str.replace, a post-pass joining tokens ...).  Such a
    # pass is written with string constants / patterns of lexer.py itself: harvest them, build
    # strings of 2-3 fragments (every order, with and without filler, outside and inside each
    # kind of string literal) and require the model with the derived classes to predict tokenise.
    frags, special = harvest_fragments(L.__file__)
    delims = [c for c in domain if cls.get(c) == "lex_string_delims"]
    wraps = [("", ""), ("a", "a")] + [(d, d) for d in delims]
    n_harvest = 0

    def compare(x):
        nonlocal n_harvest
        for pre, post in wraps:
            s = pre + x + post
            n_harvest += 1
            if lex_model(s, cls) != impl(s):
                raise Fail(f"lexer: tokenise({s!r}) = {impl(s)!r}; the model with the classes read from behaviour gives "
                           f"{lex_model(s, cls)!r} (string built from constants of lexer.py: something other than the "
                           "character ladder acts on the program text)")
    for f in frags:
        compare(f)
    for fill in ("", "a", "\n"):
        for f1 in frags:
            for f2 in frags:
                compare(f1 + fill + f2)
        for f1 in special:
            for f2 in special:
                for f3 in special:
                    compare(f1 + fill + f2 + fill + f3)
    # every other code point is an ordinary character: two batch layouts
    dset = set(domain)
    rest = [c for c in code_points() if c not in dset]
    rng = random.Random(99)
    shuffled = rest[:]
    rng.shuffle(shuffled)
    for chunk in chunks(rest, 4096):
        need(impl("".join(chunk)) == [("general", c) for c in chunk], "lexer: a character outside the code page is not an ordinary character")
    for chunk in chunks(shuffled, 2039):
        want = []
        for c in chunk:
            want += [("general", c), ("general", "a")]
        need(impl("".join(c + "a" for c in chunk)) == want, "lexer: a character outside the code page is not an ordinary character")
    out = {k: [c for c in domain if cls.get(c) == k] for k in LEX_CLASSES}
    return {"classes": out, "cases": n_cases, "domain": len(domain), "others_checked": len(rest),
            "harvested_fragments": len(frags), "harvest_cases": n_harvest}


# ----------------------------------------------------------------------------------------
# elements: the module's own source, executed with process_element and the dict displays recorded
# ----------------------------------------------------------------------------------------

class _Rewrite(ast.NodeTransformer):
    """{k: v, **m} -> __vy_dict__([(False, k, v), (True, None, m)]): same evaluation order,
    same resulting dict, but the pairs (duplicates included) are remembered"""

    def visit_Dict(self, node):
        self.generic_visit(node)
        items = []
        for k, v in zip(node.keys, node.values):
            if k is None:
                items.append(ast.Tuple(elts=[ast.Constant(True), ast.Constant(None), v], ctx=ast.Load()))
            else:
                items.append(ast.Tuple(elts=[ast.Constant(False), k, v], ctx=ast.Load()))
        new = ast.Call(func=ast.Name(id="__vy_dict__", ctx=ast.Load()), args=[ast.List(elts=items, ctx=ast.Load())], keywords=[])
        return ast.copy_location(new, node)


def probe_elements(repo):
    import importlib.machinery
    import importlib.util
    import types
    path = os.path.join(repo, "vyxal", "elements.py")
    with open(path, encoding="utf-8") as f:
        src = f.read()
    tree = ast.parse(src, filename=path)
    idx = [i for i, n in enumerate(tree.body) if isinstance(n, ast.FunctionDef) and n.name == "process_element"]
    need(len(idx) == 1, "elements.process_element: exactly one module-level definition expected")
    for n in ast.walk(tree):
        need(not (isinstance(n, ast.Name) and n.id.startswith("__vy_")), "elements.py uses a reserved name")
    wrap = ast.parse("process_element = __vy_rec__(process_element)").body[0]
    tree.body.insert(idx[0] + 1, wrap)
    tree = _Rewrite().visit(tree)
    ast.fix_missing_locations(tree)
    code = compile(tree, path, "exec", dont_inherit=True)

    calls = []          # (argument description, arity passed, result) of every process_element call
    displays = {}       # id(dict) -> (dict, [(key, value)] in display order, duplicates kept)

    def consistent(d, pairs):
        dedup = {}
        for k, v in pairs:
            dedup[k] = v
        return list(dedup) == list(d) and all(d[k] is v for k, v in dedup.items())

    def vy_dict(items):
        d = {}
        pairs = []
        for unpack, k, v in items:
            if unpack:
                rec = displays.get(id(v))
                if rec is not None and rec[0] is v:
                    need(consistent(v, rec[1]), "a dict display was changed before being merged into another")
                    sub = rec[1]
                else:
                    sub = [(kk, v[kk]) for kk in v.keys()]
                for kk, vv in sub:
                    d[kk] = vv
                    pairs.append((kk, vv))
            else:
                d[k] = v
                pairs.append((k, v))
        displays[id(d)] = (d, pairs)
        return d

    def vy_rec(fn):
        def process_element(expr, arity):
            res = fn(expr, arity)
            calls.append((expr, arity, res))
            return res
        process_element.__wrapped__ = fn
        return process_element

    class Loader(importlib.machinery.SourceFileLoader):
        def get_code(self, fullname):
            return code

    import vyxal  # noqa: F401  (the package of the checkout)
    check_origin(vyxal, repo) if getattr(vyxal, "__file__", None) else None
    name = "vyxal.elements"
    need(name not in sys.modules, "vyxal.elements already imported")
    spec = importlib.util.spec_from_file_location(name, path, loader=Loader(name, path))
    mod = importlib.util.module_from_spec(spec)
    mod.__dict__["__vy_dict__"] = vy_dict
    mod.__dict__["__vy_rec__"] = vy_rec
    sys.modules[name] = mod
    try:
        spec.loader.exec_module(mod)
    except Fail:
        raise
    except BaseException as e:  # noqa: BLE001
        raise Fail(f"vyxal/elements.py cannot be executed: {type(e).__name__}: {e}")
    setattr(vyxal, "elements", mod)
    ns = mod.__dict__
    need(getattr(ns.get("process_element"), "__wrapped__", None) is not None, "process_element was rebound after its definition")
    by_id = {}
    for expr, arity, res in calls:
        need(id(res) not in by_id, "process_element returned the same object twice")
        by_id[id(res)] = (expr, arity, res)
    used = set()
    notes = []

    def entries_of(tname):
        need(tname in ns and type(ns[tname]) is dict, f"elements.{tname}: a dict expected")
        d = ns[tname]
        rec = displays.get(id(d))
        pairs = list(rec[1]) if rec is not None and rec[0] is d else []
        if not pairs:
            notes.append(f"{tname} is not built by a dict display: duplicate keys, if any, are not observable")
        last = {}
        for k, v in pairs:
            last[k] = v
        for k, v in last.items():
            need(k in d, f"{tname}[{k!r}] was deleted after the display")
            need(d[k] is v, f"{tname}[{k!r}] was overwritten after the display")
        added = [k for k in d if k not in last]
        need(list(d) == list(last) + added, f"{tname}: the order of the entries is not the order of the display followed by the additions")
        if added and pairs:
            notes.append(f"{tname}: {len(added)} entries added after the display (update / item assignment); a key added twice is not observable")
        return pairs + [(k, d[k]) for k in added]

    elements = []
    for k, v in entries_of("elements"):
        need(type(k) is str, f"elements: key {k!r} is not a str")
        need(type(v) is tuple and len(v) == 2 and type(v[0]) is str and type(v[1]) is int, f"elements[{k!r}]: (text, arity) expected")
        if id(v) in by_id:
            expr, arity, res = by_id[id(v)]
            used.add(id(v))
            need(type(arity) is int, f"elements[{k!r}]: process_element arity must be an int")
            if isinstance(expr, types.FunctionType):
                fn = expr.__name__
                need(ns.get(fn) is expr, f"elements[{k!r}]: {fn} is not a module-level function of elements.py / helpers.py")
            else:
                need(type(expr) is str, f"elements[{k!r}]: process_element argument is neither a function nor a str")
                fn = ""
            elements.append({"key": k, "arity": v[1], "text": v[0], "fn": fn, "kind": "generated"})
        else:
            elements.append({"key": k, "arity": v[1], "text": v[0], "fn": "", "kind": "hand"})
    unused = [c for c in calls if id(c[2]) not in used]
    need(not unused, f"{len(unused)} result(s) of process_element are not entries of the table (first: "
                     f"{getattr(unused[0][0], '__name__', unused[0][0])!r}): overwritten duplicate or rebuilt entry" if unused else "")
    modifiers = []
    for k, v in entries_of("modifiers"):
        need(type(k) is str and type(v) is str, f"modifiers[{k!r}]: str -> str expected")
        modifiers.append({"key": k, "text": v})
    notes.append("duplicate keys are observed only where the table (or a dict merged into it with **) is written as a dict display")
    return {"elements": elements, "modifiers": modifiers, "notes": notes, "process_element_calls": len(calls)}


PROBES = {"encoding": probe_encoding, "parser": probe_parser, "parser_quirks": probe_parser_quirks,
          "regex": probe_regex, "lexer": probe_lexer, "elements": probe_elements}


def main():
    section, repo = sys.argv[1], sys.argv[2]
    real = os.dup(1)
    os.dup2(2, 1)               # whatever the checkout prints goes to stderr
    sys.setrecursionlimit(10000)
    try:
        need(section in PROBES, f"unknown section {section}")
        res = {"ok": True, "data": PROBES[section](repo)}
    except Fail as e:
        res = {"ok": False, "error": str(e)}
    except BaseException as e:  # noqa: BLE001
        res = {"ok": False, "error": f"probe crashed: {type(e).__name__}: {e}"}
    with os.fdopen(real, "w", encoding="utf-8") as f:
        f.write(json.dumps(res, ensure_ascii=True))
    os._exit(0)


if __name__ == "__main__":
    main()
