#!/usr/bin/env python3
"""Translator for property C10: regenerates coq/Gen/Mutation.v from the function
bodies of /repo/vyxal/elements.py, helpers.py and LazyList.py (Python `ast` only;
nothing is imported or executed).

For every module-level function (and every method of class LazyList) it computes a
*mutation summary* over the function's parameters:

  * which local names may ALIAS a parameter (`x = p`, `x = p or q`, unpacking,
    `x = iterable(p)` and every other function that can return its argument: the
    "returns its parameter" facts are themselves a fixed point over all functions),
    or an object REACHABLE from one (`p[i]`, `for x in p`, `p.attr`), kept apart from
    fresh containers that merely HOLD such objects (`list(p)`, `p[::]`, `p + q`,
    `[p, q]`): a taint (D, C) per name, D = "may be a pre-existing object reachable
    from parameter i", C = "fresh object that may contain such objects";
  * every MUTATION SITE on a D-tainted expression: subscript / slice store and delete,
    attribute store, `+=` / `*=` on a name (list += mutates in place), calls of the
    mutating methods (.append .extend .insert .pop .remove .clear .sort .reverse
    .__setitem__ ...), random.shuffle / heapq.* / bisect.insort / setattr, and -
    fail-closed - a method this translator does not know, on a tainted receiver;
  * every CALL that passes a tainted value to another analysed function, as
    (callee, parameter position, origins), including functions passed by name
    (`vectorise(add, lhs, rhs)`: add may receive anything in scope).

The analysis is flow-sensitive on the function's own statement structure (strong
updates on straight-line code, joins at branches, loops to a fixed point), and
flow-insensitive for everything a closure (nested def / lambda) can see.  Nested
functions and lambdas are analysed as part of the enclosing function, with Python's
static scoping:

  * SCOPES.  A name is local to a nested def / lambda when it is a parameter or is bound
    anywhere in its body (assignment, for / with / except target, import, inner def),
    unless declared nonlocal / global; every other name resolves to the nearest enclosing
    scope that has it local, as in Python.  Same-named variables of different scopes are
    different variables and are kept apart (`chunk` the parameter of one helper and
    `chunk` the accumulator of a sibling generator never meet).  Soundness: this IS the
    language's resolution rule, so no flow of values between two such variables exists
    that the separation could hide; a function using nonlocal / global falls back to one
    flow-insensitive environment for its enclosing function as before.
  * PARAMETERS of a nested def that DOES NOT ESCAPE - every load of its name in the
    enclosing function is the callee of a call without * / ** arguments, and it carries no
    decorator other than `lazylist` (which calls it through with the very same arguments) -
    are bound to the join, per parameter, of the actual arguments at those call sites
    (defaults included, surplus positionals wrapped into the * parameter).  Soundness: the
    function object is never stored, returned or passed on, so every invocation at run
    time happens at one of these syntactic call sites (recursive calls and calls from
    sibling nested functions are call sites too), and the value a parameter holds is the
    value of the corresponding actual there; the sites are evaluated under the
    flow-insensitive environment of their own scope and the bindings are iterated to a
    fixed point.  A nested def that escapes, and every lambda that is not called on the
    spot, keeps the old treatment: each parameter may be anything the enclosing function
    can reach.

The same analysis runs on every element template and every modifier template
(origins: 0 = a value taken from the stack, 1 = the context, 2 = a function operand).

Emitted as Coq data (Model/Effects.v gives the types): one node per (function,
parameter) with `mn_direct` and the list of callee nodes; one entry per element /
modifier template.  The least fixed point `may_mutate` is computed IN COQ; this file
also computes it in Python (reference evaluator) for the evidence.

Fail-closed: a function whose body the translator cannot handle is flagged as
mutating ("unsupported"); if a source file does not parse `mutation_translator_ok`
is false and C10's obligations break (the other properties are unaffected).
Standard library only."""
from __future__ import annotations

import ast
import os
import sys

sys.path.insert(0, os.path.dirname(os.path.abspath(__file__)))
import gen_tables as G  # noqa: E402

FS = frozenset
# A taint is (D, C, CC), three sets of origins (parameter positions):
#   D   the value may BE an object that existed before the call: the parameter or anything
#       reachable from it (level 0);
#   C   a new object whose ITEMS may be level-0 objects (level 1: list(p), p[::], [p, q]);
#   CC  a new object of new objects ... at least two levels before a level-0 object is
#       reached (list(map(list, p)), [[x] for x in p]); deeper nesting is collapsed into CC.
# Only a mutation site on D counts.  Every operation below over-approximates D.
EMPTY = (FS(), FS(), FS())


def join(a, b):
    return (a[0] | b[0], a[1] | b[1], a[2] | b[2])


def allof(t):
    return t[0] | t[1] | t[2]


def elems(t):
    """an item taken out of t (CC is collapsed, so it stays)"""
    return (t[0] | t[1], t[2], t[2])


def reach(t):
    """t or anything reachable from it"""
    return (t[0] | t[1] | t[2], t[1] | t[2], t[2])


def wrap(t):
    """a new container one of whose items is t"""
    return (FS(), t[0], t[1] | t[2])


def shallow(t):
    """a new container with the items of t (list(t), t[::], t + u)"""
    return (FS(), t[0] | t[1], t[2])


def fresh(t):
    """a new object that may hold, at any depth, what t is / holds"""
    u = t[0] | t[1] | t[2]
    return (FS(), u, u)


def both(t):
    u = t[0] | t[1] | t[2]
    return (u, u, u)


MUTATING_METHODS = {
    "append", "extend", "insert", "pop", "remove", "clear", "sort", "reverse", "__setitem__", "__delitem__",
    "__iadd__", "__imul__", "update", "add", "discard", "setdefault", "popitem", "appendleft", "popleft",
    "extendleft", "rotate", "difference_update", "intersection_update", "symmetric_difference_update",
    "__setattr__", "__delattr__",
}
RETURNS_ITEM = {"pop", "popleft", "popitem", "setdefault"}
ABSORBS = {"append", "extend", "insert", "add", "update", "appendleft", "extendleft", "__setitem__", "setdefault", "__iadd__"}
# methods of str / list / tuple / dict / sympy objects / re matches that do not change their receiver
PURE_METHODS = {
    "get", "join", "split", "rsplit", "splitlines", "replace", "startswith", "endswith", "strip", "lstrip", "rstrip",
    "count", "ljust", "rjust", "center", "lower", "upper", "zfill", "find", "rfind", "format", "isupper", "islower",
    "decode", "encode", "swapcase", "title", "capitalize", "partition", "rpartition", "isnumeric", "isdigit",
    "isalpha", "isalnum", "isspace", "isdecimal", "index", "items", "values", "keys", "most_common", "copy",
    "is_integer", "subs", "coeffs", "expand", "span", "groups", "group", "evalf", "as_numer_denom", "is_square",
    "bit_length", "conjugate", "elements", "total", "translate", "casefold", "expandtabs", "format_map",
    "removeprefix", "removesuffix", "as_integer_ratio", "to_bytes", "from_bytes", "read", "all_coeffs", "simplify",
    "is_Integer", "is_real", "limit_denominator", "tolist", "det", "inv", "n", "match", "search", "findall", "sub",
}
ITEM_PURE = {"get", "index", "group", "groups", "values", "items", "most_common", "elements"}
# builtins / imported constructors whose result is a new object
FRESH_CALLS = {
    "list", "tuple", "sorted", "reversed", "map", "filter", "zip", "enumerate", "set", "frozenset", "dict", "iter",
    "LazyList", "slice", "bytes", "bytearray", "object", "Context", "lazylist",
}
# of these, the ones whose result has exactly the items of their (last) argument
SHALLOW_CALLS = {"list", "tuple", "sorted", "reversed", "set", "frozenset", "iter", "LazyList", "filter"}
# map(f, x) for these f: every item is copied one level
COPYING_FUNCS = {"list", "tuple", "sorted", "reversed", "set", "frozenset"}
SCALAR_CALLS = {
    "len", "isinstance", "issubclass", "type", "int", "str", "bool", "float", "complex", "abs", "ord", "chr", "repr",
    "callable", "hash", "range", "any", "all", "round", "divmod", "pow", "print", "input", "id", "bin", "hex", "oct",
    "format", "exec", "eval", "compile", "open", "exit", "quit", "hasattr", "ascii", "vars", "dir", "globals", "locals",
    "Exception", "ValueError", "TypeError", "IndexError", "StopIteration", "NotImplementedError",
}
ITEM_CALLS = {"next", "min", "max", "sum", "getattr"}
# (module alias, function) -> index of the argument mutated in place
MUT_EXTERNAL = {
    ("random", "shuffle"): 0, ("heapq", "heappush"): 0, ("heapq", "heappop"): 0, ("heapq", "heapify"): 0,
    ("heapq", "heapreplace"): 0, ("heapq", "heappushpop"): 0, ("bisect", "insort"): 0, ("bisect", "insort_left"): 0,
    ("bisect", "insort_right"): 0, ("operator", "setitem"): 0, ("operator", "delitem"): 0, ("operator", "iadd"): 0,
    ("operator", "iconcat"): 0, ("operator", "imul"): 0, ("list", "append"): 0, ("list", "extend"): 0,
    ("list", "insert"): 0, ("list", "pop"): 0, ("list", "remove"): 0, ("list", "clear"): 0, ("list", "sort"): 0,
    ("list", "reverse"): 0, ("list", "__setitem__"): 0, ("list", "__delitem__"): 0, ("list", "__iadd__"): 0,
    ("LazyList", "__setitem__"): 0, ("dict", "update"): 0, ("set", "add"): 0, ("copy", "copy"): None,
}
ITEM_EXTERNAL = {("random", "choice"), ("random", "choices"), ("random", "sample"), ("functools", "reduce"),
                 ("copy", "copy"), ("operator", "getitem"), ("operator", "itemgetter")}
EXTERNAL_MODULES = {
    "sympy", "math", "itertools", "random", "string", "re", "functools", "types", "operator", "collections", "copy",
    "sys", "json", "urllib", "textwrap", "fractions", "datetime", "time", "os", "heapq", "bisect", "inspect", "ast",
    "num2words", "dictionary", "lexer", "encoding", "list", "dict", "set", "str", "int", "tuple", "np", "numpy",
}


def _own_nodes(body):
    """the nodes of a function body that belong to its own scope (nested defs / lambdas are
    yielded but not entered)"""
    stack = list(body)
    while stack:
        n = stack.pop()
        yield n
        if isinstance(n, (ast.FunctionDef, ast.AsyncFunctionDef, ast.Lambda, ast.ClassDef)):
            continue
        stack.extend(ast.iter_child_nodes(n))


def scope_locals(node):
    """names local to a nested def / lambda: parameters and everything bound in its own body,
    minus nonlocal / global declarations"""
    a = node.args
    out = {x.arg for x in a.posonlyargs + a.args + a.kwonlyargs}
    if a.vararg:
        out.add(a.vararg.arg)
    if a.kwarg:
        out.add(a.kwarg.arg)
    if isinstance(node, ast.Lambda):
        body = [node.body]
    else:
        body = node.body
    outer = set()
    for n in _own_nodes(body):
        if isinstance(n, ast.Name) and isinstance(n.ctx, (ast.Store, ast.Del)):
            out.add(n.id)
        elif isinstance(n, (ast.FunctionDef, ast.AsyncFunctionDef, ast.ClassDef)):
            out.add(n.name)
        elif isinstance(n, (ast.Import, ast.ImportFrom)):
            for al in n.names:
                out.add((al.asname or al.name).split(".")[0])
        elif isinstance(n, ast.ExceptHandler) and n.name:
            out.add(n.name)
        elif isinstance(n, (ast.Global, ast.Nonlocal)):
            outer.update(n.names)
        elif type(n).__name__ in ("MatchAs", "MatchStar") and getattr(n, "name", None):
            out.add(n.name)
        elif type(n).__name__ == "MatchMapping" and getattr(n, "rest", None):
            out.add(n.rest)
    return out - outer


def escaping_defs(body):
    """names of nested defs (at any depth of `body`) some load of which is NOT the callee of a
    call with plain arguments: such a function object may be called from anywhere"""
    defs = set()
    callee_ids = set()
    bad_call = set()
    for st in body:
        for n in ast.walk(st):
            if isinstance(n, (ast.FunctionDef, ast.AsyncFunctionDef)):
                defs.add(n.name)
            elif isinstance(n, ast.Call) and isinstance(n.func, ast.Name):
                callee_ids.add(id(n.func))
                if any(isinstance(x, ast.Starred) for x in n.args) or any(kw.arg is None for kw in n.keywords):
                    bad_call.add(n.func.id)
    out = set(bad_call) & defs
    for st in body:
        for n in ast.walk(st):
            if isinstance(n, ast.Name) and isinstance(n.ctx, ast.Load) and n.id in defs and id(n) not in callee_ids:
                out.add(n.id)
    return out


class FnInfo:
    def __init__(self, qual, module, node, cls=None):
        self.qual = qual                # emitted name
        self.module = module
        self.node = node
        self.cls = cls
        a = node.args
        self.params = [x.arg for x in a.posonlyargs + a.args]
        self.npos = len(self.params)
        self.vararg = None
        if a.vararg:
            self.vararg = len(self.params)
            self.params.append(a.vararg.arg)
        self.kwonly_from = len(self.params)
        self.params += [x.arg for x in a.kwonlyargs]
        self.kwarg = None
        if a.kwarg:
            self.kwarg = len(self.params)
            self.params.append(a.kwarg.arg)
        self.ret_direct = set()
        self.ret_contains = set()
        self.ret_nested = set()
        self.sites = {}                 # (line, col, kind) -> site dict
        self.calls = set()              # (origin, callee qual, pos)
        self.dyncalls = 0
        self.notes = []
        self.unknown_methods = set()
        self.ctx_inplace = set()


class Analyser:
    """One function body (or one template) under the current global facts."""

    def __init__(self, world, info, origins_env, all_origins, template=False):
        self.w = world
        self.info = info
        self.template = template
        self.all = FS(all_origins)
        self.env = dict(origins_env)
        self.env_fi = None
        self.weak = 0
        self.fi_mode = False
        self.nested = {}                # scoped name -> {"ret": taint, "decorated": bool, "escapes": bool, "defs": [...]}
        self.ret_stack = []             # scoped names of nested functions being analysed
        self.scope = 0                  # 0 = the function itself
        self.scopes = {0: {"parent": None, "locals": None}}
        self.scope_ids = {}             # id(ast node) -> scope number
        self.nparams = {}               # (scoped function name, parameter) -> join of the actuals
        self.escaping = set()           # names of nested defs that escape (by name)
        self.cache_self = info.cls is not None

    # ---- environment -------------------------------------------------------------
    def k(self, name):
        """the variable `name` denotes in the current scope (Python's static scoping)"""
        s = self.scope
        while s:
            sc = self.scopes[s]
            if name in sc["locals"]:
                return f"{name}@{s}"
            s = sc["parent"]
        return name

    def has(self, name):
        return self.k(name) in self.env

    def enter(self, node):
        """scope of a nested def / lambda"""
        sid = self.scope_ids.get(id(node))
        if sid is None:
            sid = self.scope_ids[id(node)] = len(self.scopes)
            self.scopes[sid] = {"parent": self.scope, "locals": scope_locals(node)}
        old = self.scope
        self.scope = sid
        return old

    def look(self, name):
        return self.env.get(self.k(name), EMPTY)

    def assign(self, name, t):
        name = self.k(name)
        if self.fi_mode or self.weak or "@" in name:
            self.env[name] = join(self.env.get(name, EMPTY), t)
        else:
            self.env[name] = t

    def absorb(self, expr, t):
        """the container `expr` denotes now also holds t: t becomes reachable from the root
        name one level further down than `expr` is"""
        n = expr
        depth = 0
        while isinstance(n, (ast.Subscript, ast.Attribute, ast.Starred)):
            n = n.value
            depth += 1
        if isinstance(n, ast.Name):
            key = self.k(n.id)
            cur = self.env.get(key, EMPTY)
            add = wrap(t) if depth == 0 else (FS(), FS(), allof(t))
            self.env[key] = (cur[0], cur[1] | add[1], cur[2] | add[2])

    # ---- recording -----------------------------------------------------------------
    def ctx_attr(self, expr):
        """`ctx.X` at the root of the mutated expression: the context attribute whose OBJECT is
        changed in place (None when the expression is `ctx` itself: a rebinding of ctx.X)"""
        n = expr
        last = None
        while True:
            if isinstance(n, ast.Attribute):
                last = n.attr
                n = n.value
            elif isinstance(n, (ast.Subscript, ast.Starred)):
                n = n.value
            elif isinstance(n, ast.Call):
                n = n.func
            else:
                break
        if isinstance(n, ast.Name) and n.id == "ctx":
            return last
        return None

    def site(self, node, kind, origins, benign=False, target=None):
        if target is not None:
            a = self.ctx_attr(target)
            if a is not None:
                self.info.ctx_inplace.add(a)
        if not origins:
            return
        if self.cache_self and self.info.node.name == "__init__" and set(origins) <= {0}:
            benign = True            # the constructor fills in the object it is creating
            kind = "constructor:" + kind
        key = (getattr(node, "lineno", 0), getattr(node, "col_offset", 0), kind)
        s = self.info.sites.get(key)
        if s is None:
            try:
                txt = " ".join(ast.unparse(node).split())[:100]
            except Exception:  # noqa: BLE001
                txt = kind
            s = self.info.sites[key] = {"line": key[0], "kind": kind, "origins": set(), "text": txt, "benign": benign}
        s["origins"] |= set(origins)

    def edge(self, callee, pos, origins):
        for o in origins:
            self.info.calls.add((o, callee.qual, pos))

    def ret(self, t, is_yield=False):
        if is_yield:
            t = wrap(t)               # the generator object holds what it yields
        if self.ret_stack:
            cur = self.nested[self.ret_stack[-1]]
            cur["ret"] = join(cur["ret"], t)
        self.info.ret_direct |= t[0]
        self.info.ret_contains |= t[1]
        self.info.ret_nested |= t[2]

    # ---- expressions ---------------------------------------------------------------
    def ev(self, n):
        if n is None:
            return EMPTY
        m = getattr(self, "ev_" + type(n).__name__, None)
        if m is not None:
            return m(n)
        t = EMPTY
        for c in ast.iter_child_nodes(n):
            if isinstance(c, ast.expr):
                t = join(t, self.ev(c))
        return both(t)

    def ev_Constant(self, n):
        return EMPTY

    def ev_JoinedStr(self, n):
        for v in n.values:
            self.ev(v)
        return EMPTY

    def ev_FormattedValue(self, n):
        self.ev(n.value)
        return EMPTY

    def ev_Name(self, n):
        if self.has(n.id):
            return self.env[self.k(n.id)]
        g = self.w.resolve(self.info.module, n.id)
        if g is not None:
            # a function mentioned by name outside the callee position: whoever gets it may
            # call it with anything this function can reach
            for j in range(len(g.params)):
                self.edge(g, j, self.all)
        return EMPTY

    def ev_Compare(self, n):
        self.ev(n.left)
        for c in n.comparators:
            self.ev(c)
        return EMPTY

    def ev_UnaryOp(self, n):
        self.ev(n.operand)
        return EMPTY

    def ev_BinOp(self, n):
        return shallow(join(self.ev(n.left), self.ev(n.right)))

    def ev_BoolOp(self, n):
        t = EMPTY
        for v in n.values:
            t = join(t, self.ev(v))
        return t

    def ev_IfExp(self, n):
        self.ev(n.test)
        return join(self.ev(n.body), self.ev(n.orelse))

    def ev_NamedExpr(self, n):
        t = self.ev(n.value)
        self.bind(n.target, t, n.value)
        return t

    def ev_Slice(self, n):
        self.ev(n.lower), self.ev(n.upper), self.ev(n.step)
        return EMPTY

    def ev_Subscript(self, n):
        base = self.ev(n.value)
        self.ev(n.slice)
        if isinstance(n.slice, ast.Slice):
            return shallow(base)
        return elems(base)

    def ev_Attribute(self, n):
        if isinstance(n.value, ast.Name) and not self.has(n.value.id) and n.value.id in EXTERNAL_MODULES:
            return EMPTY
        return elems(self.ev(n.value))

    def ev_Starred(self, n):
        return self.ev(n.value)

    def _display(self, items):
        t = EMPTY
        for x in items:
            if isinstance(x, ast.Starred):
                t = join(t, elems(self.ev(x.value)))
            elif x is not None:
                t = join(t, self.ev(x))
        return wrap(t)

    def ev_Tuple(self, n):
        return self._display(n.elts)

    ev_List = ev_Tuple
    ev_Set = ev_Tuple

    def ev_Dict(self, n):
        return self._display(list(n.keys) + list(n.values))

    def _generators(self, gens):
        for g in gens:
            it = self.ev(g.iter)
            self.weak += 1
            self.bind(g.target, elems(it), None)
            self.weak -= 1
            for c in g.ifs:
                self.ev(c)

    def ev_ListComp(self, n):
        self._generators(n.generators)
        return wrap(self.ev(n.elt))

    ev_SetComp = ev_ListComp
    ev_GeneratorExp = ev_ListComp

    def ev_DictComp(self, n):
        self._generators(n.generators)
        return wrap(join(self.ev(n.key), self.ev(n.value)))

    def ev_Yield(self, n):
        self.ret(self.ev(n.value), is_yield=True)
        return (self.all, self.all, self.all)        # what send() delivers: unknown

    def ev_YieldFrom(self, n):
        self.ret(elems(self.ev(n.value)), is_yield=True)
        return EMPTY

    def ev_Await(self, n):
        return both(self.ev(n.value))

    def ev_Lambda(self, n, immediate=False):
        """immediate: the lambda is called on the spot with no arguments (the
        `{...}.get(key, default)()` idiom), so the current environment is the right one"""
        a = n.args
        names = [x.arg for x in a.posonlyargs + a.args + a.kwonlyargs]
        if a.vararg:
            names.append(a.vararg.arg)
        if a.kwarg:
            names.append(a.kwarg.arg)
        for d in list(a.defaults) + [k for k in a.kw_defaults if k is not None]:
            self.ev(d)
        if immediate and not names:
            return self.ev(n.body)
        saved = None
        if not self.fi_mode:
            saved = self.env
            self.env = dict(self.env_fi if self.env_fi is not None else self.env)
        old = self.enter(n)
        self.weak += 1
        for nm in names:
            self.assign(nm, (self.all, self.all, self.all))
        t = self.ev(n.body)
        t = join(t, self.ev(n.body))
        self.weak -= 1
        self.scope = old
        if saved is not None:
            self.env = saved
        return t if immediate else fresh(t)

    def _thunk(self, v):
        """value of a dict entry / default that is about to be called with no arguments"""
        if isinstance(v, ast.Lambda):
            return self.ev_Lambda(v, immediate=True)
        return both(self.ev(v))

    def ev_Call(self, n):
        f = n.func
        # {...}.get(key[, default])()
        if (not n.args and not n.keywords and isinstance(f, ast.Call) and isinstance(f.func, ast.Attribute)
                and f.func.attr == "get" and isinstance(f.func.value, ast.Dict) and not f.keywords and 1 <= len(f.args) <= 2):
            d = f.func.value
            for k in d.keys:
                if k is not None:
                    self.ev(k)
            self.ev(f.args[0])
            t = EMPTY
            for v in d.values:
                t = join(t, self._thunk(v))
            if len(f.args) == 2:
                t = join(t, self._thunk(f.args[1]))
            return t
        # (lambda: ...)()
        if isinstance(f, ast.Lambda) and not n.args and not n.keywords:
            return self.ev_Lambda(f, immediate=True)
        argt = []
        for a in n.args:
            if isinstance(a, ast.Starred):
                argt.append(("*", self.ev(a.value)))
            else:
                argt.append((None, self.ev(a)))
        kwt = []
        for k in n.keywords:
            kwt.append((k.arg, self.ev(k.value)))
        everything = EMPTY
        for _, t in argt + kwt:
            everything = join(everything, t)

        if isinstance(f, ast.Name):
            name = f.id
            key = self.k(name)
            if key in self.nested and key in self.env:
                ent = self.nested[key]
                if not ent["escapes"]:
                    self.bind_actuals(key, ent, n, argt, kwt)
                r = ent["ret"]
                return join(r, shallow(r)) if ent["decorated"] else r
            if key in self.env:
                # a function value held in a variable / parameter (user lambda, element passed in)
                self.info.dyncalls += 1
                return both(join(self.env[key], everything))
            g = self.w.resolve(self.info.module, name)
            if g is not None:
                if self.template and name == "pop" and n.args and isinstance(n.args[0], ast.Name) and n.args[0].id == "stack":
                    # taking values off the stack: the primitive of every template
                    for (star, t), j in zip(argt[1:], range(1, len(argt))):
                        self.edge(g, j, allof(t))
                    for kw, t in kwt:
                        if kw in g.params:
                            self.edge(g, g.params.index(kw), allof(t))
                    return (FS([0]), FS([0]), FS())
                return self.module_call(g, argt, kwt, n)
            if name in SHALLOW_CALLS and argt and not kwt:
                return shallow(argt[-1][1])
            if name == "map" and len(n.args) >= 2 and isinstance(n.args[0], ast.Name) and not self.has(n.args[0].id) \
                    and self.w.resolve(self.info.module, n.args[0].id) is None:
                rest = EMPTY
                for _, t in argt[1:]:
                    rest = join(rest, t)
                if n.args[0].id in COPYING_FUNCS:
                    return wrap(shallow(elems(rest)))
                if n.args[0].id in SCALAR_CALLS:
                    return EMPTY
            if name in ("zip", "enumerate"):
                return wrap(wrap(elems(everything)))
            if name in FRESH_CALLS:
                return fresh(everything)
            if name in SCALAR_CALLS:
                return EMPTY
            if name in ITEM_CALLS:
                return both(everything)
            if name in ("setattr", "delattr"):
                if argt:
                    self.site(n, name, argt[0][1][0], target=n.args[0] if n.args and not isinstance(n.args[0], ast.Starred) else None)
                return EMPTY
            self.info.notes.append(f"call of unknown name {name}")
            return both(everything)

        if isinstance(f, ast.Attribute):
            meth = f.attr
            recv = f.value
            # module-qualified call
            root = recv
            while isinstance(root, ast.Attribute):
                root = root.value
            if isinstance(root, ast.Name) and not self.has(root.id) and (root.id in EXTERNAL_MODULES or root.id == "vyxal"):
                if root.id == "vyxal":
                    g = self.w.resolve(self.info.module, meth)
                    if g is not None:
                        return self.module_call(g, argt, kwt, n)
                key = (root.id, meth)
                if key in MUT_EXTERNAL and MUT_EXTERNAL[key] is not None and len(argt) > MUT_EXTERNAL[key]:
                    a0 = n.args[MUT_EXTERNAL[key]]
                    self.site(n, f"{root.id}.{meth}", argt[MUT_EXTERNAL[key]][1][0],
                              target=None if isinstance(a0, ast.Starred) else a0)
                if key in ITEM_EXTERNAL:
                    return both(everything)
                return fresh(everything)
            r = self.ev(recv)
            if meth in MUTATING_METHODS:
                benign = (self.cache_self and meth == "append" and isinstance(recv, ast.Attribute) and recv.attr == "generated"
                          and isinstance(recv.value, ast.Name) and recv.value.id == "self")
                self.site(n, "cache-append" if benign else "method:" + meth, r[0], benign=benign, target=recv)
                if meth in ABSORBS:
                    self.absorb(recv, elems(everything) if meth in ("extend", "update", "extendleft", "__iadd__") else everything)
                return elems(r) if meth in RETURNS_ITEM else EMPTY
            lz = self.w.lazy_methods.get(meth)
            if lz is not None and meth not in ("count", "index"):
                self.edge(lz, 0, allof(r))
                for (star, t), j in zip(argt, range(1, 1 + len(argt))):
                    if j < len(lz.params):
                        self.edge(lz, j, allof(t))
                if meth in ("__getitem__", "__next__"):
                    return both(join(r, everything))
                return fresh(join(r, everything))
            if meth in PURE_METHODS:
                if meth in ITEM_PURE:
                    return both(join(r, everything))
                if meth == "copy" and not argt:
                    return shallow(r)
                return fresh(join(r, everything))
            # unknown method: fail-closed on a tainted receiver
            if r[0]:
                self.info.unknown_methods.add(meth)
                self.site(n, "unknown-method:" + meth, r[0], target=recv)
            return both(join(r, everything))

        # any other callee expression
        self.info.dyncalls += 1
        return both(join(self.ev(f), everything))

    def module_call(self, g, argt, kwt, node):
        """edges + result of calling analysed function g"""
        per = {}                                  # callee position -> taint passed
        j = 0
        for star, t in argt:
            if star:
                # items of t at every remaining position
                for p in range(j, len(g.params)):
                    per[p] = join(per.get(p, EMPTY), elems(t))
                continue
            if j < g.npos:
                per[j] = join(per.get(j, EMPTY), t)
            elif g.vararg is not None:
                per[g.vararg] = join(per.get(g.vararg, EMPTY), wrap(t))
            elif allof(t):
                self.site(node, "call-arity", allof(t))   # more arguments than parameters: fail-closed
            j += 1
        for kw, t in kwt:
            if kw is None:                        # **mapping
                for p in range(len(g.params)):
                    per[p] = join(per.get(p, EMPTY), elems(t))
            elif kw in g.params:
                p = g.params.index(kw)
                per[p] = join(per.get(p, EMPTY), t)
            elif g.kwarg is not None:
                per[g.kwarg] = join(per.get(g.kwarg, EMPTY), wrap(t))
            elif allof(t):
                self.site(node, "call-keyword", allof(t))
        res = EMPTY
        for p, t in per.items():
            self.edge(g, p, allof(t))
            # what the callee calls "parameter p or reachable from it" is, here, t or anything
            # reachable from t
            if p in g.ret_direct:
                res = join(res, reach(t))
            if p in g.ret_contains:
                res = join(res, wrap(reach(t)))
            if p in g.ret_nested:
                res = join(res, (FS(), FS(), allof(t)))
        return res

    # ---- statements ------------------------------------------------------------------
    def bind(self, tgt, t, value_node):
        if isinstance(tgt, ast.Name):
            self.assign(tgt.id, t)
        elif isinstance(tgt, (ast.Tuple, ast.List)):
            if (isinstance(value_node, (ast.Tuple, ast.List)) and len(value_node.elts) == len(tgt.elts)
                    and not any(isinstance(e, ast.Starred) for e in list(value_node.elts) + list(tgt.elts))):
                ts = [self.ev(e) for e in value_node.elts]
                for e, te in zip(tgt.elts, ts):
                    self.bind(e, te, None)
            else:
                for e in tgt.elts:
                    if isinstance(e, ast.Starred):
                        self.bind(e.value, shallow(t), None)
                    else:
                        self.bind(e, elems(t), None)
        elif isinstance(tgt, ast.Subscript):
            base = self.ev(tgt.value)
            self.ev(tgt.slice)
            self.site(tgt, "store", base[0], target=tgt.value)
            self.absorb(tgt.value, t)
        elif isinstance(tgt, ast.Attribute):
            base = self.ev(tgt.value)
            if not (self.cache_self and self.info.node.name == "__init__"):
                self.site(tgt, "attr-store", base[0], target=tgt.value)
            self.absorb(tgt.value, t)
        elif isinstance(tgt, ast.Starred):
            self.bind(tgt.value, shallow(t), None)
        else:
            self.site(tgt, "unsupported-target", self.all)

    def block(self, stmts):
        for s in stmts:
            self.stmt(s)

    def env_join(self, a, b):
        out = dict(a)
        for k, v in b.items():
            out[k] = join(out.get(k, EMPTY), v)
        return out

    def loop(self, head, body, orelse):
        e_in = dict(self.env)
        for _ in range(40):
            before = dict(self.env)
            head()
            self.block(body)
            self.env = self.env_join(self.env, e_in)
            if self.env == before:
                break
        self.block(orelse)

    def stmt(self, s):
        if isinstance(s, ast.Expr):
            self.ev(s.value)
        elif isinstance(s, ast.Assign):
            t = self.ev(s.value)
            for tgt in s.targets:
                self.bind(tgt, t, s.value)
        elif isinstance(s, ast.AnnAssign):
            if s.value is not None:
                self.bind(s.target, self.ev(s.value), s.value)
        elif isinstance(s, ast.AugAssign):
            tv = self.ev(s.value)
            if isinstance(s.target, ast.Name):
                cur = self.look(s.target.id)
                numeric = isinstance(s.value, ast.Constant) and isinstance(s.value.value, (int, float, complex)) \
                    and not isinstance(s.value.value, bool)
                if isinstance(s.op, ast.Mult) or (isinstance(s.op, ast.Add) and not numeric):
                    self.site(s, "augassign", cur[0])
                self.env[self.k(s.target.id)] = (cur[0], cur[1] | tv[0] | tv[1], cur[2] | tv[2])
            elif isinstance(s.target, (ast.Subscript, ast.Attribute)):
                base = self.ev(s.target.value)
                if isinstance(s.target, ast.Subscript):
                    self.ev(s.target.slice)
                self.site(s.target, "store", base[0], target=s.target.value)
                self.absorb(s.target.value, tv)
            else:
                self.site(s, "unsupported-target", self.all)
        elif isinstance(s, ast.Return):
            self.ret(self.ev(s.value))
        elif isinstance(s, ast.If):
            self.ev(s.test)
            if self.fi_mode:
                self.block(s.body)
                self.block(s.orelse)
            else:
                e0 = dict(self.env)
                self.block(s.body)
                e1 = self.env
                self.env = e0
                self.block(s.orelse)
                self.env = self.env_join(e1, self.env)
        elif isinstance(s, (ast.For, ast.AsyncFor)):
            def head():
                it = self.ev(s.iter)
                self.bind(s.target, elems(it), None)
            self.loop(head, s.body, s.orelse)
        elif isinstance(s, ast.While):
            self.loop(lambda: self.ev(s.test), s.body, s.orelse)
        elif isinstance(s, ast.Try) or type(s).__name__ == "TryStar":
            self.weak += 1
            for _ in range(2):
                self.block(s.body)
                for h in s.handlers:
                    if h.name:
                        self.assign(h.name, EMPTY)
                    self.block(h.body)
                self.block(s.orelse)
                self.block(s.finalbody)
            self.weak -= 1
        elif isinstance(s, (ast.With, ast.AsyncWith)):
            for it in s.items:
                t = self.ev(it.context_expr)
                if it.optional_vars is not None:
                    self.bind(it.optional_vars, both(t), None)
            self.block(s.body)
        elif isinstance(s, (ast.FunctionDef, ast.AsyncFunctionDef)):
            self.nested_def(s)
        elif isinstance(s, ast.Delete):
            for tgt in s.targets:
                if isinstance(tgt, (ast.Subscript, ast.Attribute)):
                    base = self.ev(tgt.value)
                    self.site(tgt, "del", base[0], target=tgt.value)
                elif isinstance(tgt, ast.Name):
                    pass
        elif isinstance(s, ast.Assert):
            self.ev(s.test)
        elif isinstance(s, ast.Raise):
            self.ev(s.exc)
        elif isinstance(s, (ast.Pass, ast.Break, ast.Continue, ast.Global, ast.Nonlocal)):
            pass
        elif isinstance(s, (ast.Import, ast.ImportFrom)):
            for a in s.names:
                nm = (a.asname or a.name).split(".")[0]
                if self.w.resolve(self.info.module, nm) is None and nm not in EXTERNAL_MODULES and nm != "vyxal":
                    self.assign(nm, EMPTY)
        else:
            # class definitions, match statements, ...: fail-closed
            self.site(s, "unsupported-statement:" + type(s).__name__, self.all)

    def bind_actuals(self, key, ent, call, argt, kwt):
        """a call site of a nested def that does not escape: the actuals flow into its parameters"""
        for d in ent["defs"]:
            a = d.args
            pos = [x.arg for x in a.posonlyargs + a.args]
            j = 0
            for star, t in argt:
                if j < len(pos):
                    self.nparam(key, pos[j], t)
                elif a.vararg:
                    self.nparam(key, a.vararg.arg, wrap(t))
                j += 1
            names = set(pos) | {x.arg for x in a.kwonlyargs}
            for kw, t in kwt:
                if kw in names:
                    self.nparam(key, kw, t)
                elif a.kwarg:
                    self.nparam(key, a.kwarg.arg, wrap(t))

    def nparam(self, key, pname, t):
        cur = self.nparams.get((key, pname), EMPTY)
        self.nparams[(key, pname)] = join(cur, t)

    def nested_def(self, s):
        decorated = bool(s.decorator_list)
        key = self.k(s.name)                     # the def binds its name in the enclosing scope
        escapes = s.name in self.escaping or any(
            not (isinstance(d, ast.Name) and d.id == "lazylist") for d in s.decorator_list)
        ent = self.nested.setdefault(key, {"ret": EMPTY, "decorated": decorated, "escapes": escapes, "defs": []})
        ent["escapes"] = ent["escapes"] or escapes
        ent["decorated"] = ent["decorated"] or decorated
        if s not in ent["defs"]:
            ent["defs"].append(s)
        a = s.args
        names = [x.arg for x in a.posonlyargs + a.args + a.kwonlyargs]
        if a.vararg:
            names.append(a.vararg.arg)
        if a.kwarg:
            names.append(a.kwarg.arg)
        # defaults are evaluated where the def stands
        pos = [x.arg for x in a.posonlyargs + a.args]
        dflt = {}
        for nm, d in zip(pos[len(pos) - len(a.defaults):], a.defaults):
            dflt[nm] = self.ev(d)
        for x, d in zip(a.kwonlyargs, a.kw_defaults):
            if d is not None:
                dflt[x.arg] = self.ev(d)
        saved = None
        if not self.fi_mode:
            saved = self.env
            self.env = dict(self.env_fi if self.env_fi is not None else self.env)
        old = self.enter(s)
        self.weak += 1
        self.ret_stack.append(key)
        for nm in names:
            if ent["escapes"]:
                self.assign(nm, (self.all, self.all, self.all))
            else:
                self.assign(nm, join(self.nparams.get((key, nm), EMPTY), dflt.get(nm, EMPTY)))
        for _ in range(3):
            self.block(s.body)
        self.ret_stack.pop()
        self.weak -= 1
        self.scope = old
        if saved is not None:
            self.env = saved
        self.assign(s.name, EMPTY)
        return ent

    # ---- driver ---------------------------------------------------------------------
    def facts(self):
        return (dict(self.env), {k: v["ret"] for k, v in self.nested.items()}, dict(self.nparams))

    def run(self, body):
        init = dict(self.env)
        self.escaping = escaping_defs(body)
        # pass 1: flow-insensitive fixed point (what a closure may see)
        self.fi_mode = True
        for _ in range(40):
            before = self.facts()
            self.block(body)
            if self.facts() == before:
                break
        self.env_fi = dict(self.env)
        uses_scope_stmt = any(isinstance(x, (ast.Global, ast.Nonlocal)) for st in body for x in ast.walk(st))
        if uses_scope_stmt:
            self.info.notes.append("global/nonlocal: flow-insensitive analysis only")
            return
        # pass 2: flow-sensitive on the function's own statements; sites / calls found in
        # pass 1 under the coarser environment are discarded
        self.info.sites.clear()
        self.info.calls.clear()
        self.info.ret_direct, self.info.ret_contains, self.info.ret_nested = set(), set(), set()
        self.info.ctx_inplace.clear()
        self.fi_mode = False
        self.env = init
        for _ in range(12):      # nested return / parameter facts feed calls made before the def is re-read
            before = self.facts()[1:]
            self.env = dict(init)
            self.block(body)
            if _ >= 2 and self.facts()[1:] == before:
                break


class World:
    def __init__(self, repo):
        self.repo = repo
        self.mods = {}                 # module -> {name: FnInfo}
        self.fns = []                  # emission order
        self.lazy_methods = {}
        self.errors = []

    def load(self):
        for mod, rel in (("elements", "vyxal/elements.py"), ("helpers", "vyxal/helpers.py"), ("LazyList", "vyxal/LazyList.py")):
            tree, _ = G.module_of(os.path.join(self.repo, rel))
            table = {}
            for n in tree.body:
                if isinstance(n, (ast.FunctionDef, ast.AsyncFunctionDef)):
                    table[n.name] = FnInfo(n.name, mod, n)       # a later def of the same name wins
                elif isinstance(n, ast.ClassDef) and n.name == "LazyList":
                    for m in n.body:
                        if isinstance(m, (ast.FunctionDef, ast.AsyncFunctionDef)):
                            fi = FnInfo("LazyList." + m.name, mod, m, cls="LazyList")
                            self.lazy_methods[m.name] = fi
            self.mods[mod] = table
        # emitted names must be unique: a helper shadowed by an element function of the same name
        seen = {}
        for mod in ("elements", "helpers", "LazyList"):
            for name, fi in self.mods[mod].items():
                if name in seen:
                    fi.qual = mod + "." + name
                seen.setdefault(name, fi)
                self.fns.append(fi)
        self.fns += list(self.lazy_methods.values())

    def resolve(self, module, name):
        order = {"elements": ("elements", "helpers", "LazyList"), "helpers": ("helpers", "LazyList", "elements"),
                 "LazyList": ("LazyList", "helpers", "elements")}[module]
        for m in order:
            fi = self.mods[m].get(name)
            if fi is not None:
                return fi
        return None

    def analyse_fn(self, fi):
        env = {p: (FS([i]), FS(), FS()) for i, p in enumerate(fi.params)}
        fi.sites, fi.calls = {}, set()
        old = (set(fi.ret_direct), set(fi.ret_contains), set(fi.ret_nested))
        fi.ret_direct, fi.ret_contains, fi.ret_nested = set(), set(), set()
        fi.notes, fi.dyncalls = [], 0
        fi.ctx_inplace = set()
        a = Analyser(self, fi, env, range(len(fi.params)))
        try:
            a.run(fi.node.body)
        except RecursionError:
            raise
        except Exception as ex:  # noqa: BLE001  fail-closed per function
            fi.sites[(fi.node.lineno, 0, "unsupported")] = {
                "line": fi.node.lineno, "kind": "unsupported", "origins": set(range(len(fi.params))),
                "text": f"translator error: {type(ex).__name__}: {ex}"[:100], "benign": False}
        # the facts other functions rely on only grow
        fi.ret_direct |= old[0]
        fi.ret_contains |= old[1]
        fi.ret_nested |= old[2]
        return (fi.ret_direct, fi.ret_contains, fi.ret_nested) != old

    def analyse_all(self):
        for rnd in range(12):
            changed = False
            for fi in self.fns:
                if self.analyse_fn(fi):
                    changed = True
            if not changed:
                return rnd + 1
        raise G.TranslatorError("gen_mutation: the returns-its-parameter facts did not stabilise")

    def analyse_template(self, text, what):
        fi = FnInfo.__new__(FnInfo)
        fi.qual, fi.module, fi.cls = what, "elements", None
        fi.node = ast.parse("def _t(stack, ctx, function): pass").body[0]
        fi.params = ["stack", "ctx", "function"]
        fi.npos, fi.vararg, fi.kwarg, fi.kwonly_from = 3, None, None, 3
        fi.ret_direct, fi.ret_contains, fi.ret_nested, fi.sites, fi.calls = set(), set(), set(), {}, set()
        fi.dyncalls, fi.notes, fi.unknown_methods, fi.ctx_inplace = 0, [], set(), set()
        env = {"stack": (FS(), FS([0]), FS([0])), "ctx": (FS([1]), FS(), FS())}
        for nm in ("function_A", "function_B", "function_C", "function_D"):
            env[nm] = (FS([2]), FS(), FS())
        try:
            body = ast.parse(text).body
            Analyser(self, fi, env, range(3), template=True).run(body)
        except SyntaxError as ex:
            fi.notes.append(f"template does not parse: {ex.msg}")
            fi.sites[(0, 0, "unsupported")] = {"line": 0, "kind": "unsupported", "origins": {0, 1, 2},
                                               "text": "template does not parse", "benign": False}
        except Exception as ex:  # noqa: BLE001
            fi.sites[(0, 0, "unsupported")] = {"line": 0, "kind": "unsupported", "origins": {0, 1, 2},
                                               "text": f"translator error: {type(ex).__name__}: {ex}"[:100], "benign": False}
        return fi


# ----------------------------------------------------------------------------
# summary -> nodes, reference fixed point
# ----------------------------------------------------------------------------

def direct_origins(fi):
    out = set()
    for s in fi.sites.values():
        if not s["benign"]:
            out |= s["origins"]
    return out


def build(repo):
    w = World(repo)
    w.load()
    rounds = w.analyse_all()
    node_id = {}
    nodes = []
    for fi in w.fns:
        for i, p in enumerate(fi.params):
            node_id[(fi.qual, i)] = len(nodes)
            nodes.append({"fn": fi.qual, "pos": i, "param": p, "direct": False, "calls": []})
    for fi in w.fns:
        d = direct_origins(fi)
        for i in range(len(fi.params)):
            nd = nodes[node_id[(fi.qual, i)]]
            nd["direct"] = i in d
            nd["calls"] = sorted({node_id[(c, p)] for (o, c, p) in fi.calls if o == i and (c, p) in node_id})
    elements, modifiers = G.read_elements(repo)
    tmpl = []
    for kind, rows in (("element", elements), ("modifier", modifiers)):
        for e in rows:
            fi = w.analyse_template(e["text"], f"{kind}:{e['key']}")
            d = direct_origins(fi)
            rec = {"kind": kind, "key": e["key"], "fn": e.get("fn", ""), "arity": e.get("arity"),
                   "hand": e.get("kind") == "hand",
                   "direct": bool(d & {0, 2}), "ctx_direct": 1 in d,
                   "calls": sorted({node_id[(c, p)] for (o, c, p) in fi.calls if o in (0, 2) and (c, p) in node_id}),
                   "ctx_calls": sorted({node_id[(c, p)] for (o, c, p) in fi.calls if o == 1 and (c, p) in node_id}),
                   "sites": [site_json(s) for s in fi.sites.values()], "notes": fi.notes,
                   "pushes": push_shape(e["text"]), "ctx_inplace": sorted(fi.ctx_inplace),
                   "ctx_pushes": [list(x) for x in ctx_pushes(e["text"])]}
            tmpl.append(rec)
    fns = {}
    for fi in w.fns:
        fns[fi.qual] = {
            "module": fi.module, "line": fi.node.lineno, "params": fi.params,
            "ret_direct": sorted(fi.ret_direct), "ret_contains": sorted(fi.ret_contains),
            "sites": [site_json(s) for s in sorted(fi.sites.values(), key=lambda s: s["line"])],
            "calls": sorted([o, c, p] for (o, c, p) in fi.calls),
            "dyncalls": fi.dyncalls, "notes": fi.notes, "unknown_methods": sorted(fi.unknown_methods),
            "ctx_inplace": sorted(fi.ctx_inplace),
        }
    inplace = {}
    for name, d in fns.items():
        for a in d["ctx_inplace"]:
            inplace.setdefault(a, []).append(name)
    for t in tmpl:
        for a in t["ctx_inplace"]:
            inplace.setdefault(a, []).append(f"{t['kind']} {t['key']}")
    return {"nodes": nodes, "templates": tmpl, "functions": fns, "rounds": rounds, "ctx_inplace": inplace}


def push_shape(text):
    """How a template pushes: number of `stack.append(<bare name>)` and of pushes whose
    argument is deep_copy(...) / list(deep_copy(...)) (the copy-on-duplicate mechanism)."""
    bare = copied = other = 0
    try:
        tree = ast.parse(text)
    except SyntaxError:
        return None
    for n in ast.walk(tree):
        if (isinstance(n, ast.Call) and isinstance(n.func, ast.Attribute) and n.func.attr == "append"
                and isinstance(n.func.value, ast.Name) and n.func.value.id == "stack" and len(n.args) == 1):
            a = n.args[0]
            if isinstance(a, ast.Call) and isinstance(a.func, ast.Name) and a.func.id == "list" and len(a.args) == 1:
                a = a.args[0]
            if isinstance(a, ast.Name):
                bare += 1
            elif isinstance(a, ast.Call) and isinstance(a.func, ast.Name) and a.func.id == "deep_copy" and len(a.args) == 1:
                copied += 1
            else:
                other += 1
    return {"bare": bare, "copied": copied, "other": other}


MATERIALISERS = {"list", "tuple", "sorted"}


def ctx_pushes(text):
    """Pushes of a context attribute: for every `ctx.X` inside the argument of stack.append /
    stack.extend / `stack +=` that is pushed as a whole (not `ctx.X.pop()`, not `ctx.X[i]`):
    (X, materialised) where materialised = the occurrence sits under list(...) / tuple(...) /
    sorted(...), i.e. the pushed value is a new eager object made at push time, not the
    attribute's own object and not a lazy view of it (deep_copy alone)."""
    try:
        tree = ast.parse(text)
    except SyntaxError:
        return []
    out = []

    def scan(e, under):
        if isinstance(e, ast.Attribute) and isinstance(e.value, ast.Name) and e.value.id == "ctx":
            out.append((e.attr, under))
            return
        if isinstance(e, ast.Attribute):
            # ctx.X.method / ctx.X.attr: an item or a part, not the attribute's value as a whole
            if isinstance(e.value, ast.Attribute) and isinstance(e.value.value, ast.Name) and e.value.value.id == "ctx":
                return
        if isinstance(e, ast.Subscript) and isinstance(e.value, ast.Attribute) and isinstance(e.value.value, ast.Name) \
                and e.value.value.id == "ctx" and not isinstance(e.slice, ast.Slice):
            scan(e.slice, under)
            return
        u = under or (isinstance(e, ast.Call) and isinstance(e.func, ast.Name) and e.func.id in MATERIALISERS)
        for c in ast.iter_child_nodes(e):
            scan(c, u)

    for n in ast.walk(tree):
        if (isinstance(n, ast.Call) and isinstance(n.func, ast.Attribute) and n.func.attr in ("append", "extend", "insert")
                and isinstance(n.func.value, ast.Name) and n.func.value.id == "stack"):
            for a in n.args:
                scan(a, False)
        elif isinstance(n, ast.AugAssign) and isinstance(n.target, ast.Name) and n.target.id == "stack":
            scan(n.value, False)
    return out


def site_json(s):
    return {"line": s["line"], "kind": s["kind"], "origins": sorted(s["origins"]), "text": s["text"], "benign": s["benign"]}


def lfp(nodes):
    """Reference evaluator of Model/Effects.v `lfp`: least fixed point of
    flagged(v) = direct(v) or some callee node of v is flagged."""
    flag = [n["direct"] for n in nodes]
    rounds = 0
    while True:
        rounds += 1
        new = [n["direct"] or any(flag[c] for c in n["calls"]) for n in nodes]
        if new == flag:
            return flag, rounds
        flag = new


def why(nodes, flag, v, limit=6):
    """a shortest call chain from node v to a node with a direct mutation site"""
    from collections import deque
    prev = {v: None}
    q = deque([v])
    while q:
        x = q.popleft()
        if nodes[x]["direct"]:
            chain = []
            while x is not None:
                chain.append(x)
                x = prev[x]
            chain = chain[::-1]
            return [f"{nodes[c]['fn']}({nodes[c]['param']})" for c in chain][:limit]
        for c in nodes[x]["calls"]:
            if c not in prev and flag[c]:
                prev[c] = x
                q.append(c)
    return []


def summarise(an):
    nodes = an["nodes"]
    flag, rounds = lfp(nodes)
    an["lfp_rounds"] = rounds
    an["flag"] = flag
    flagged_fns = {}
    for i, n in enumerate(nodes):
        if flag[i] and n["param"] not in ("ctx",):
            flagged_fns.setdefault(n["fn"], []).append({"pos": n["pos"], "param": n["param"], "direct": n["direct"],
                                                        "chain": why(nodes, flag, i)})
    an["flagged_functions"] = flagged_fns
    ctx_fns = sorted({n["fn"] for i, n in enumerate(nodes) if flag[i] and n["param"] == "ctx"})
    an["ctx_mutators"] = ctx_fns
    for t in an["templates"]:
        t["flagged"] = bool(t["direct"] or any(flag[c] for c in t["calls"]))
        t["ctx_flagged"] = bool(t["ctx_direct"] or any(flag[c] for c in t["ctx_calls"]))
        t["because"] = []
        if t["direct"]:
            t["because"].append("template: " + "; ".join(s["text"] for s in t["sites"] if set(s["origins"]) & {0, 2}))
        for c in t["calls"]:
            if flag[c]:
                t["because"].append(" -> ".join(why(nodes, flag, c)))
    an["flagged_elements"] = [t["key"] for t in an["templates"] if t["kind"] == "element" and t["flagged"]]
    an["flagged_modifiers"] = [t["key"] for t in an["templates"] if t["kind"] == "modifier" and t["flagged"]]
    return an


# ----------------------------------------------------------------------------
# Coq emission
# ----------------------------------------------------------------------------

def nlist(xs):
    return "[" + "; ".join(str(x) for x in xs) + "]%N" if xs else "([] : list N)"


def emit(an):
    s = ("(* GENERATED by tools/gen_mutation.py from /repo/vyxal/{elements,helpers,LazyList}.py. Do not edit. *)\n"
         "From Coq Require Import List NArith ZArith Bool.\n"
         "From Vy Require Import Model.Base Model.Effects.\n"
         "Import ListNotations.\nOpen Scope N_scope.\n"
         "Definition mutation_translator_ok : bool := true.\n")
    s += "(* one node per (function, parameter): name, position, has a direct mutation site on an\n   alias of that parameter, callee nodes that receive an alias of it *)\n"
    rows = []
    for i, n in enumerate(an["nodes"]):
        rows.append("(* %d %s(%s) *) {| mn_fn := %s; mn_pos := %d; mn_direct := %s; mn_calls := %s |}"
                    % (i, n["fn"], n["param"], G.cstr(n["fn"]), n["pos"], G.cbool(n["direct"]), nlist(n["calls"])))
    s += "Definition mut_nodes : list mnode :=\n  " + G.clist(rows) + ".\n"
    for kind, name in (("element", "mut_elements"), ("modifier", "mut_modifiers")):
        rows = []
        for t in an["templates"]:
            if t["kind"] != kind:
                continue
            rows.append("{| mt_key := %s; mt_fn := %s; mt_direct := %s; mt_calls := %s; mt_ctx_direct := %s; mt_ctx_calls := %s |}"
                        % (G.cstr(t["key"]), G.cstr(t["fn"]), G.cbool(t["direct"]), nlist(t["calls"]),
                           G.cbool(t["ctx_direct"]), nlist(t["ctx_calls"])))
        s += f"Definition {name} : list mtempl :=\n  " + G.clist(rows) + ".\n"
    s += ("(* how each element template pushes: stack.append(<bare name>) count, pushes wrapped in\n"
          "   deep_copy(...) (or list(deep_copy(...))) count; templates that do not parse are left out *)\n")
    rows = []
    for t in an["templates"]:
        if t["kind"] == "element" and t["pushes"] is not None and (t["pushes"]["copied"] or t["key"] in (":", "D", "Ḃ", "¾")):
            rows.append("{| dt_key := %s; dt_bare := %d; dt_copied := %d |}" % (G.cstr(t["key"]), t["pushes"]["bare"], t["pushes"]["copied"]))
    s += "Definition dup_templates : list dtempl :=\n  " + G.clist(rows) + ".\n"
    s += ("(* context attributes whose OBJECT some template or function changes in place\n"
          "   (ctx.X.append / .pop / ctx.X[i] = ...; a rebinding `ctx.X = ...` does not count), with who does it *)\n")
    rows = []
    for a in sorted(an["ctx_inplace"]):
        rows.append("(* %s *) %s" % ("; ".join(an["ctx_inplace"][a])[:160].replace("*)", "* )"), G.cstr(a)))
    s += "Definition ctx_inplace_attrs : list str :=\n  " + G.clist(rows, "str") + ".\n"
    s += "(* every push of a context attribute as a whole: template, attribute, pushed under list()/tuple()/sorted() *)\n"
    rows = []
    for t in an["templates"]:
        for attr, mat in t["ctx_pushes"]:
            rows.append("{| cp_key := %s; cp_attr := %s; cp_materialised := %s |}" % (G.cstr(t["key"]), G.cstr(attr), G.cbool(mat)))
    s += "Definition ctx_pushes : list cpush :=\n  " + G.clist(rows, "cpush") + ".\n"
    return s


FAILED = ("(* GENERATED by tools/gen_mutation.py: the translator FAILED (%s). *)\n"
          "From Coq Require Import List NArith ZArith Bool.\n"
          "From Vy Require Import Model.Base Model.Effects.\n"
          "Import ListNotations.\n"
          "Definition mutation_translator_ok : bool := false.\n"
          "Definition mut_nodes : list mnode := [].\n"
          "Definition mut_elements : list mtempl := [].\nDefinition mut_modifiers : list mtempl := [].\n"
          "Definition dup_templates : list dtempl := [].\n"
          "Definition ctx_inplace_attrs : list str := [].\nDefinition ctx_pushes : list cpush := [].\n")


def generate(repo, outdir):
    """-> (json tables, changed files).  A failure of THIS translator must not take the
    other properties down: it is recorded in the tables and in Mutation.v
    (mutation_translator_ok = false), which breaks C10's own obligations only."""
    try:
        an = summarise(build(repo))
        text = emit(an)
    except RecursionError:
        an = {"error": "RecursionError", "nodes": [], "templates": [], "functions": {}}
        text = FAILED % "RecursionError"
    except Exception as ex:  # noqa: BLE001
        an = {"error": f"{type(ex).__name__}: {ex}", "nodes": [], "templates": [], "functions": {}}
        text = FAILED % an["error"].replace("*)", "* )").replace("(*", "( *")[:200]
    changed = []
    if G.write_if_changed(os.path.join(outdir, "Mutation.v"), text):
        changed.append("Mutation.v")
    return an, changed


if __name__ == "__main__":
    repo = sys.argv[1] if len(sys.argv) > 1 else "/repo"
    an = summarise(build(repo))
    print("functions:", len(an["functions"]), "nodes:", len(an["nodes"]), "edges:", sum(len(n["calls"]) for n in an["nodes"]),
          "ret-fact rounds:", an["rounds"], "lfp rounds:", an["lfp_rounds"])
    print("flagged functions (value parameters):", len(an["flagged_functions"]))
    for f, ps in an["flagged_functions"].items():
        for p in ps:
            print("  ", f, p["param"], "DIRECT" if p["direct"] else "via", " -> ".join(p["chain"]))
    for f, d in an["functions"].items():
        for s_ in d["sites"]:
            print("   site", f, s_["line"], s_["kind"], s_["origins"], s_["text"], "(benign)" if s_["benign"] else "")
    print("flagged elements:", " ".join(an["flagged_elements"]))
    print("flagged modifiers:", " ".join(an["flagged_modifiers"]))
    print("ctx mutators:", len(an["ctx_mutators"]))
    print("ctx attributes changed in place:", an["ctx_inplace"])
    print("ctx pushes:", [(t["key"], t["ctx_pushes"]) for t in an["templates"] if t["ctx_pushes"]])
    um = sorted({m for d in an["functions"].values() for m in d["unknown_methods"]})
    print("unknown methods on tainted receivers:", um)
    notes = sorted({n for d in an["functions"].values() for n in d["notes"]})
    print("notes:", notes[:40])
